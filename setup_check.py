#!/venv/bin/python
"""setup_cmd: nothing to build; verify that the interpreter imports what the checks need, from the expected places."""
import os, sys
repo = os.environ.get("VERIF_REPO", "/repo")
sys.path.insert(0, repo)
import codelimit, pygments, pathspec, yaml, rich, typer  # noqa
assert os.path.realpath(os.path.dirname(os.path.dirname(codelimit.__file__))) == os.path.realpath(repo), codelimit.__file__
assert sys.version_info >= (3, 12), "sys.monitoring needs Python 3.12"
sys.path.insert(0, os.path.dirname(os.path.abspath(__file__)))
from sim import seams, corpus  # noqa
print("ok: codelimit from %s, %d corpus texts" % (codelimit.__file__, len(corpus.IDS)))
