#!/venv/bin/python
"""worldsim coordinator / worker / replay / shrink entry point.

  run.py <ID> --tier quick|thorough [--runs N] [--budget-s S] [--workers W]
  run.py <ID> --replay <file>
  run.py selftest determinism|conformance
  (internal) run.py --worker      job JSON on stdin, JSON lines on stdout
  (internal) run.py --shrink <violation.json> <out.json>
  (internal) run.py --c06-ref <out.json>

Exit status: 0 = property held on everything explored (KNOWN-FINDING lines
possible); 1 = VIOLATION property=<id> replay=<path>; 2 = HARNESS-ERROR.
"""
from __future__ import annotations

import argparse
import concurrent.futures as cf
import faulthandler
import hashlib
import json
import os
import subprocess
import sys
import time

HERE = os.path.dirname(os.path.abspath(__file__))
PY = "/venv/bin/python" if os.path.exists("/venv/bin/python") else sys.executable
REPO = os.environ.get("VERIF_REPO", "/repo")


def _bootstrap():
    """Make sure the code under test is the working tree at VERIF_REPO."""
    if HERE not in sys.path:
        sys.path.insert(0, HERE)
    if REPO not in sys.path:
        sys.path.insert(0, REPO)
    os.environ["PYTHONDONTWRITEBYTECODE"] = "1"
    sys.dont_write_bytecode = True


def child_env(hashseed):
    env = dict(os.environ)
    env["PYTHONHASHSEED"] = str(hashseed)
    env["PYTHONDONTWRITEBYTECODE"] = "1"
    env["PYTHONPATH"] = REPO + os.pathsep + HERE
    env["LC_ALL"] = "C.UTF-8"
    env["LANG"] = "C.UTF-8"
    env["COLUMNS"] = "80"
    env["VERIF_REPO"] = REPO
    env.pop("GITHUB_REF", None)
    env.pop("GITHUB_HEAD_REF", None)
    return env


CASE_CPU_S = 300      # CPU-seconds a single case may burn (loops inside C code are invisible to the step
                      # budget); enforced with RLIMIT_CPU, so machine load cannot trip it.  Heaviest legitimate
                      # case: ~70 CPU-s
CASE_WALL_S = 1800    # wall-clock backstop for anything that hangs without burning CPU


def batch_hashseed(verif_seed, b):
    return (verif_seed * 7919 + b * 104729 + 1) % (1 << 32)


# ============================================================================
# worker
# ============================================================================
def worker_main():
    _bootstrap()
    job = json.loads(sys.stdin.read())
    from sim import seams, plans
    from sim.executor import execute
    import codelimit
    assert os.path.realpath(os.path.dirname(os.path.dirname(codelimit.__file__))) == os.path.realpath(REPO), \
        "codelimit imported from %s, expected %s" % (codelimit.__file__, REPO)
    ref_table = None
    if job.get("ref_table"):
        with open(job["ref_table"]) as f:
            ref_table = json.load(f)
    seams.install()
    check, tier, vseed = job["check"], job["tier"], job["seed"]
    out = sys.stdout
    agg = Aggregate()
    import resource
    import signal
    faulthandler.register(signal.SIGXCPU, chain=True)     # say where it was looping, then die
    _soft, hard = resource.getrlimit(resource.RLIMIT_CPU)
    for i in job["indices"]:
        faulthandler.dump_traceback_later(job.get("run_timeout", CASE_WALL_S), exit=True)
        budget = int(time.process_time()) + job.get("cpu_limit", CASE_CPU_S) + 1
        if hard == resource.RLIM_INFINITY or budget < hard:
            resource.setrlimit(resource.RLIMIT_CPU, (budget, hard))   # SIGXCPU ends a case that never returns
        out.write(json.dumps({"start": i}) + "\n")
        out.flush()
        spec = plans.case_spec(check, tier, vseed, i)
        try:
            res = execute(spec, ref_table)
        except Exception:  # noqa: BLE001 - a bug in the harness/oracles: reported, never a verdict
            import traceback
            faulthandler.cancel_dump_traceback_later()
            out.write(json.dumps({"i": i, "digest": "-", "nviol": 0, "harness_exception": traceback.format_exc()[-1500:]}) + "\n")
            out.flush()
            continue
        faulthandler.cancel_dump_traceback_later()
        mine = [v for v in res["violations"] if v["property"] == check]
        agg.add(i, spec, res, mine)
        line = {"i": i, "digest": res["log_digest"], "nviol": len(mine)}
        if job.get("want_logs"):
            line["log"] = res["log"]
        if mine:
            line["violations"] = mine[:5]
            line["spec"] = spec
        out.write(json.dumps(line, default=str) + "\n")
        out.flush()
    resource.setrlimit(resource.RLIMIT_CPU, (hard, hard))
    out.write(json.dumps({"summary": agg.dump(), "seams": seams._INSTALLED,
                          "hashseed": os.environ.get("PYTHONHASHSEED")}, default=str) + "\n")
    out.flush()


class Aggregate:
    """Coverage accumulated over runs (mergeable)."""

    def __init__(self):
        self.runs = 0
        self.counters = {}
        self.probes = {}
        self.proc_ops = {}
        self.states = set()
        self.transitions = set()
        self.set_orders = set()
        self.walk_orders = set()
        self.nontrivial = set()
        self.sim_seconds = 0.0
        self.steps = 0
        self.ops = 0
        self.reports = 0
        self.subcases = 0
        self.samples = []
        self.other_tags = {}

    def add(self, i, spec, res, mine):
        self.runs += 1
        for k, v in res["counters"].items():
            self.counters[k] = self.counters.get(k, 0) + v
        cov = res["cover"]
        for k, v in cov["probes"].items():
            self.probes[k] = self.probes.get(k, 0) + v
        for k, v in cov["proc_ops"].items():
            self.proc_ops[k] = self.proc_ops.get(k, 0) + v
        self.states.update(cov["states"])
        self.transitions.update(cov["transitions"])
        self.set_orders.update(res["set_order_digests"])
        self.walk_orders.update(res["walk_orders"])
        self.sim_seconds += res["sim_seconds"]
        self.steps += res["steps"]
        self.ops += res["n_ops"]
        self.reports += res["n_reports"]
        self.subcases += res.get("subcases", 0)
        self.nontrivial.update(res.get("subcase_digests", []))
        c = res["counters"]
        nontrivial = (sum(cov["proc_ops"].values()) > 0 and (
            c.get("set_iter_permutable", 0) > 0 or c.get("walk_dirs", 0) > 0
            or any(k.startswith(("fault_fired_", "cache_", "corrupt_")) for k in c)))
        if nontrivial:
            self.nontrivial.add(res["log_digest"])
        for v in res["violations"]:
            if v["property"] != spec["property"]:
                self.other_tags[v["property"]] = self.other_tags.get(v["property"], 0) + 1
        if len(self.samples) < 2:
            self.samples.append({"case": i, "seed": spec["seed"], "swarm": spec.get("swarm"),
                                 "ops": spec["ops"][:40], "n_ops": len(spec["ops"])})

    def dump(self):
        return {"runs": self.runs, "counters": self.counters, "probes": self.probes, "proc_ops": self.proc_ops,
                "states": sorted(self.states), "transitions": sorted(self.transitions),
                "set_orders": sorted(self.set_orders), "walk_orders": sorted(self.walk_orders),
                "nontrivial": sorted(self.nontrivial), "sim_seconds": self.sim_seconds, "steps": self.steps,
                "ops": self.ops, "reports": self.reports, "subcases": self.subcases, "samples": self.samples, "other_tags": self.other_tags}

    def merge(self, d):
        self.runs += d["runs"]
        for name in ("counters", "probes", "proc_ops", "other_tags"):
            tgt = getattr(self, name)
            for k, v in d[name].items():
                tgt[k] = tgt.get(k, 0) + v
        for name in ("states", "transitions", "set_orders", "walk_orders", "nontrivial"):
            getattr(self, name).update(d[name])
        self.sim_seconds += d["sim_seconds"]
        self.steps += d["steps"]
        self.ops += d["ops"]
        self.reports += d["reports"]
        self.subcases += d.get("subcases", 0)
        for s in d["samples"]:
            if len(self.samples) < 4:
                self.samples.append(s)


# ============================================================================
# coordinator
# ============================================================================
import threading

STOP = threading.Event()      # set when the verdict is already decided: running workers are killed
_PROCS = set()
_PROCS_LOCK = threading.Lock()


def stop_all_workers():
    STOP.set()
    with _PROCS_LOCK:
        for p in list(_PROCS):
            try:
                p.kill()
            except OSError:
                pass


def _run_worker(job, hs, timeout):
    if STOP.is_set():
        return [], "", "stopped"
    p = subprocess.Popen([PY, os.path.join(HERE, "run.py"), "--worker"], stdin=subprocess.PIPE, stdout=subprocess.PIPE,
                         stderr=subprocess.PIPE, text=True, env=child_env(hs), cwd=HERE)
    with _PROCS_LOCK:
        _PROCS.add(p)
    try:
        try:
            out, err = p.communicate(json.dumps(job), timeout=timeout)
            rc = p.returncode
        except subprocess.TimeoutExpired:
            p.kill()
            out, err = p.communicate()
            rc = "timeout"
    finally:
        with _PROCS_LOCK:
            _PROCS.discard(p)
    if STOP.is_set() and rc not in (0,):
        rc = "stopped"
    lines = []
    for l in (out or "").splitlines():
        try:
            lines.append(json.loads(l))
        except ValueError:
            pass
    return lines, err or "", rc


def run_batch(check, tier, vseed, b, indices, ref_table, timeout, want_logs=False):
    """One worker interpreter for one batch.  A worker that dies (wall-clock
    backstop, crash of the interpreter) is classified, never ignored: the case
    it was running is retried alone; if it dies again it is a reproducible
    `dead case`, and the rest of the batch is run in a fresh worker."""
    hs = batch_hashseed(vseed, b)
    t0 = time.time()
    todo = list(indices)
    all_lines, dead, errs = [], [], []
    rc = 0
    for _attempt in range(4):
        if not todo or STOP.is_set():
            break
        job = {"check": check, "tier": tier, "seed": vseed, "indices": todo, "ref_table": ref_table,
               "want_logs": want_logs, "run_timeout": CASE_WALL_S}
        lines, err, rc = _run_worker(job, hs, timeout)
        all_lines += lines
        if any("summary" in l for l in lines):
            todo = []
            break
        errs.append(err[-1500:])
        started = [l["start"] for l in lines if "start" in l]
        finished = {l["i"] for l in lines if "i" in l}
        culprit = started[-1] if started and started[-1] not in finished else None
        if culprit is None:
            break  # died outside any case: harness problem
        if STOP.is_set():
            break
        job1 = dict(job, indices=[culprit], run_timeout=CASE_WALL_S)
        l1, e1, rc1 = _run_worker(job1, hs, CASE_WALL_S + 100)   # dies again by SIGXCPU if it really loops
        if rc1 == "stopped":
            break
        if any("summary" in l for l in l1):
            all_lines += l1   # a one-off (machine load): the retry completed
        else:
            dead.append({"case": culprit, "stderr": (e1 or err)[-1500:], "rc": str(rc1)})
        todo = [i for i in todo if i not in finished and i != culprit]
    return {"b": b, "hashseed": hs, "rc": rc, "lines": all_lines, "stderr": "\n".join(errs)[-4000:],
            "wall": time.time() - t0, "indices": indices, "dead": dead, "unfinished": todo}


def load_known():
    p = os.path.join(HERE, "known_findings.json")
    if not os.path.exists(p):
        return []
    with open(p) as f:
        return json.load(f).get("findings", [])


def match_known(v, known):
    import re
    for k in known:
        if k.get("status") != "known" or k.get("property") != v["property"]:
            continue
        m = k.get("match", {})
        if m.get("sig") and m["sig"] != v.get("sig"):
            continue
        if m.get("detail_regex") and not re.search(m["detail_regex"], v.get("detail", "") or ""):
            continue
        if m.get("msg_regex") and not re.search(m["msg_regex"], v.get("msg", "") or ""):
            continue
        return k
    return None


def coordinator(check, tier, runs, budget_s, workers, vseed):
    _bootstrap()
    from sim import plans
    t0 = time.time()
    conf = plans.TIERS[check]
    B = conf["batch"]
    if tier == "quick":
        total = runs or plans.quick_runs(check)
        budget_s = budget_s or 3600
    else:
        total = runs or conf["thorough_max"]
        budget_s = budget_s or conf["thorough_s"]
    ref_table = None
    scratch = None
    harness_errors = []
    if check in ("C06", "C07"):
        from sim.props import c06
        from sim.world import scratch_parent
        import tempfile
        fd, scratch = tempfile.mkstemp(prefix="clsim-ref-", suffix=".json", dir=scratch_parent())
        os.close(fd)
        try:
            c06.reference_table(scratch)
            ref_table = scratch
        except Exception as e:  # noqa: BLE001
            harness_errors.append("reference table: %s" % e)
    # one scratch directory for everything this invocation's workers create; removed at the end
    # whatever happened to them
    import tempfile
    from sim.world import scratch_parent as _sp
    run_scratch = tempfile.mkdtemp(prefix="cls-", dir=_sp())
    os.environ["VERIF_SCRATCH"] = run_scratch
    agg = Aggregate()
    violations = []     # (violation, spec, hashseed)
    dead_cases = []     # cases whose worker died twice (reproducibly)
    hashseeds = set()
    seams_seen = {}
    n_batches = (total + B - 1) // B
    batch_timeout = 3600
    done_runs = 0
    next_b = 0
    deadline = t0 + budget_s
    with cf.ThreadPoolExecutor(max_workers=workers) as pool:
        futs = set()

        def submit():
            nonlocal next_b
            while len(futs) < workers and next_b < n_batches and time.time() < deadline and not STOP.is_set():
                idx = list(range(next_b * B, min(total, (next_b + 1) * B)))
                futs.add(pool.submit(run_batch, check, tier, vseed, next_b, idx, ref_table, batch_timeout))
                next_b += 1
        submit()
        while futs:
            done, _ = cf.wait(futs, return_when=cf.FIRST_COMPLETED)
            for f in done:
                futs.discard(f)
                r = f.result()
                if os.environ.get("VERIF_DEBUG"):
                    sys.stderr.write("batch %d: %.1fs cases %s..%s\n" % (r["b"], r["wall"], r["indices"][0], r["indices"][-1]))
                hashseeds.add(r["hashseed"])
                got_summary = False
                last_start = None
                for l in r["lines"]:
                    if "start" in l:
                        last_start = l["start"]
                    elif "summary" in l:
                        agg.merge(l["summary"])
                        seams_seen = l.get("seams", seams_seen)
                        got_summary = True
                    elif "i" in l:
                        done_runs += 1
                        if l.get("harness_exception"):
                            harness_errors.append("case %d: exception in the harness: %s" % (l["i"], l["harness_exception"][-700:]))
                        for v in l.get("violations", []):
                            violations.append((v, l["spec"], r["hashseed"]))
                for dc in r.get("dead", []):
                    dead_cases.append((dc, r["hashseed"]))
                    if check == "C03" and not STOP.is_set():
                        # a case that kills its worker twice is a hang: the verdict is decided,
                        # so do not spend CASE_WALL_S on every other case that meets the same loop
                        sys.stderr.write("case %d did not terminate twice: stopping the remaining workers\n" % dc["case"])
                        stop_all_workers()
                if (not got_summary or r.get("unfinished")) and not STOP.is_set():
                    harness_errors.append("batch %d (hashseed %d) rc=%s last started case=%s unfinished=%s stderr tail: %s" % (
                        r["b"], r["hashseed"], r["rc"], last_start, r.get("unfinished"), r["stderr"][-1500:]))
            if len(violations) > 200:
                break
            if violations and os.environ.get("VERIF_STOP_ON_FIRST"):
                stop_all_workers()      # development aid (seeded regression): one violation is enough
                break
            submit()
    wall = time.time() - t0
    # ---- classify violations --------------------------------------------------
    known = load_known()
    by_sig = {}
    known_seen = {}
    for v, spec, hs in violations:
        k = match_known(v, known)
        if k is not None:
            known_seen.setdefault(k["id"], [k, 0])[1] += 1
            continue
        by_sig.setdefault(v["sig"], []).append((v, spec, hs))
    replay_paths = []
    for sig, items in list(by_sig.items())[:4]:
        items.sort(key=lambda t: len(t[1]["ops"]))
        v, spec, hs = items[0]
        path = write_replay(check, v, spec, hs, shrink=True)
        replay_paths.append((v, path, len(items)))
    for dc, hs in dead_cases[:3]:
        spec = plans.case_spec(check, tier, vseed, dc["case"])
        if check == "C03":
            # bounded termination is part of C03: a case that kills its worker twice is a hang
            v = {"property": "C03", "oracle": "terminates", "detail": "the case did not return within %d CPU-seconds, twice (SIGXCPU; loops inside C code are invisible to the step budget): %s" % (CASE_CPU_S, dc["stderr"][-900:]),
                 "op_index": -1, "outcome": "hang", "sig": "C03/terminates/hang/-/-"}
            path = write_replay(check, v, spec, hs, shrink=False)
            replay_paths.append((v, path, 1))
            by_sig.setdefault(v["sig"], []).append((v, spec, hs))
        else:
            harness_errors.append("case %d killed its worker twice (rc=%s): %s" % (dc["case"], dc["rc"], dc["stderr"][-800:]))
    # ---- evidence -------------------------------------------------------------
    write_evidence(check, tier, vseed, agg, wall, len(by_sig), sorted(hashseeds), seams_seen, known_seen,
                   harness_errors, done_runs)
    if scratch and os.path.exists(scratch):
        os.unlink(scratch)
    os.environ.pop("VERIF_SCRATCH", None)
    import shutil
    shutil.rmtree(run_scratch, ignore_errors=True)
    for kid, (k, n) in sorted(known_seen.items()):
        print("KNOWN-FINDING: property=%s %s (%s; seen %d times this run)" % (k["property"], k["what"], kid, n))
    if harness_errors:
        for h in harness_errors[:5]:
            print("HARNESS-ERROR %s" % h)
    for v, path, n in replay_paths:
        print("VIOLATION property=%s replay=%s" % (check, path))
        print("  oracle=%s cases=%d detail=%s" % (v["oracle"], n, (v.get("detail") or "")[:400]))
    print("%s %s: %d runs, %d distinct non-trivial, %.1fs, %d hash seeds, violations=%d known=%d harness_errors=%d" % (
        check, tier, done_runs, len(agg.nontrivial), wall, len(hashseeds), len(by_sig), len(known_seen), len(harness_errors)))
    if replay_paths:
        return 1
    if harness_errors:
        return 2
    return 0


def write_replay(check, v, spec, hs, shrink=True):
    if not shrink:
        os.makedirs(os.path.join(HERE, "replays"), exist_ok=True)
        path = os.path.join(HERE, "replays", "%s-%d.json" % (check, spec["seed"]))
        with open(path, "w") as f:
            json.dump({"property": check, "hashseed": hs, "expect_sig": v["sig"], "violation": v, "spec": spec,
                       "minimised": False}, f, indent=1, default=str)
        return path
    os.makedirs(os.path.join(HERE, "replays"), exist_ok=True)
    if v.get("narrow") and 0 <= v.get("op_index", -1) < len(spec["ops"]):
        # a sweep op enumerates many sub-cases: narrow it to the failing one
        spec = json.loads(json.dumps(spec))
        op = spec["ops"][v["op_index"]]
        for k in ("stride", "parts", "part"):
            op.pop(k, None)
        op.update(v["narrow"])
    raw = {"property": check, "hashseed": hs, "expect_sig": v["sig"], "violation": {k: v[k] for k in v if k != "tb"},
           "spec": spec, "minimised": False}
    path = os.path.join(HERE, "replays", "%s-%d.json" % (check, spec["seed"]))
    with open(path, "w") as f:
        json.dump(raw, f, indent=1, default=str)
    if shrink:
        try:
            p = subprocess.run([PY, os.path.join(HERE, "run.py"), "--shrink", path, path], env=child_env(hs),
                               capture_output=True, text=True, timeout=420, cwd=HERE)
            if p.returncode != 0:
                sys.stderr.write("shrink failed: %s\n" % p.stderr[-1000:])
        except subprocess.TimeoutExpired:
            sys.stderr.write("shrink timed out; unminimised replay kept\n")
        # confirm in a fresh interpreter
        try:
            p = subprocess.run([PY, os.path.join(HERE, "run.py"), check, "--replay", path], env=child_env(hs),
                               capture_output=True, text=True, timeout=300, cwd=HERE)
            with open(path) as f:
                d = json.load(f)
            d["replay_confirmed"] = (p.returncode == 1)
            with open(path, "w") as f:
                json.dump(d, f, indent=1, default=str)
        except subprocess.TimeoutExpired:
            pass
    return path


def write_evidence(check, tier, vseed, agg, wall, n_viol, hashseeds, seams_seen, known_seen, harness_errors, done_runs):
    from sim import evidence
    evidence.write(HERE, check, tier, vseed, agg, wall, n_viol, hashseeds, seams_seen, known_seen, harness_errors,
                   done_runs)


# ============================================================================
# replay / shrink
# ============================================================================
def _exec_spec(spec):
    from sim import seams
    from sim.executor import execute
    seams.install()
    ref = None
    if spec.get("workload", spec["property"]) == "C06" or spec["property"] in ("C06",):
        from sim.props import c06
        ref = c06.reference_table()
    return execute(spec, ref)


def replay_main(check, path):
    _bootstrap()
    with open(path) as f:
        d = json.load(f)
    hs = str(d.get("hashseed", 0))
    if os.environ.get("PYTHONHASHSEED") != hs:
        env = child_env(hs)
        return subprocess.run([PY, os.path.join(HERE, "run.py"), check, "--replay", path], env=env, cwd=HERE).returncode
    spec = d["spec"]
    faulthandler.dump_traceback_later(600, exit=True)   # a hanging replay ends non-zero, never 0
    res = _exec_spec(spec)
    faulthandler.cancel_dump_traceback_later()
    mine = [v for v in res["violations"] if v["property"] == check]
    known = load_known()
    rc = 0
    for v in mine:
        k = match_known(v, known)
        if k:
            print("KNOWN-FINDING: property=%s %s (%s)" % (check, k["what"], k["id"]))
            continue
        print("VIOLATION property=%s replay=%s" % (check, path))
        print("  sig=%s" % v["sig"])
        print("  detail=%s" % (v.get("detail") or "")[:600])
        if v.get("tb"):
            print("  traceback tail:\n%s" % v["tb"])
        rc = 1
        break
    if rc == 0:
        print("replay %s: no violation of %s (log digest %s)" % (path, check, res["log_digest"]))
    else:
        print("  expected sig=%s  same=%s  log digest %s" % (d.get("expect_sig"), any(v["sig"] == d.get("expect_sig") for v in mine), res["log_digest"]))
    return rc


def shrink_main(path, out):
    _bootstrap()
    from sim import shrink
    with open(path) as f:
        d = json.load(f)
    spec, n_exec = shrink.minimise(d["spec"], d["property"], d["expect_sig"], _exec_spec, budget_s=int(os.environ.get("VERIF_SHRINK_S", "300")))
    d["spec"] = spec
    d["minimised"] = True
    d["shrink_executions"] = n_exec
    with open(out, "w") as f:
        json.dump(d, f, indent=1, default=str)
    return 0


# ============================================================================
def main(argv):
    if len(argv) >= 1 and argv[0] == "--worker":
        worker_main()
        return 0
    if len(argv) >= 2 and argv[0] == "--c06-ref":
        _bootstrap()
        from sim.props import c06
        c06.compute_reference_main(argv[1])
        return 0
    if len(argv) >= 3 and argv[0] == "--shrink":
        return shrink_main(argv[1], argv[2])
    if len(argv) >= 1 and argv[0] == "selftest":
        _bootstrap()
        from sim import selftest
        return selftest.main(argv[1:])
    ap = argparse.ArgumentParser()
    ap.add_argument("check")
    ap.add_argument("--tier", default=os.environ.get("VERIF_TIER", "quick"), choices=("quick", "thorough"))
    ap.add_argument("--runs", type=int, default=0)
    ap.add_argument("--budget-s", type=int, default=0)
    ap.add_argument("--workers", type=int, default=min(16, os.cpu_count() or 4))
    ap.add_argument("--replay")
    a = ap.parse_args(argv)
    if a.replay:
        return replay_main(a.check, a.replay)
    vseed = int(os.environ.get("VERIF_SEED", "0") or 0)
    return coordinator(a.check, a.tier, a.runs, a.budget_s, a.workers, vseed)


if __name__ == "__main__":
    for _st in (sys.stdout, sys.stderr):
        try:
            _st.reconfigure(errors="backslashreplace")   # file names that are not valid UTF-8 may be quoted
        except (AttributeError, ValueError):
            pass
    try:
        rc = main(sys.argv[1:])
    except KeyboardInterrupt:
        rc = 2
    except SystemExit:
        raise
    except BaseException as e:  # noqa: BLE001
        import traceback
        traceback.print_exc()
        print("HARNESS-ERROR %s: %s" % (type(e).__name__, e))
        rc = 2
    sys.exit(rc)
