#!/bin/bash
# Re-runs every seeded change against the quick check of the property it breaks (scratch copies, VERIF_REPO).
# usage: seeded_regression.sh [parallelism]   -> writes /verif/seeded/REGRESSION.txt
P=${1:-2}
OUT=/verif/seeded/REGRESSION.txt
REGTMP=$(mktemp -d /dev/shm/clsim-reg-XXXXXX)
one() {
  id=$1
  [ -f /dev/shm/reg-keep/$id ] && return     # already done in an earlier (interrupted) pass
  d=/verif/seeded/$id
  prop=$(/venv/bin/python -c "import json;m=json.load(open('$d/meta.json'));print(m['breaks_property'] or '$id'.split('-')[0])")
  expect=$(/venv/bin/python -c "import json;m=json.load(open('$d/meta.json'));print(1 if m['breaks_property'] else 0)")
  W=$(mktemp -d /dev/shm/clsim-try-XXXXXX)
  git -C /repo archive HEAD | tar -x -C $W
  (cd $W && git init -q . 2>/dev/null && (git apply $d/patch.diff 2>/dev/null || patch -s -p1 --fuzz=3 < $d/patch.diff)) || { echo "$id $prop PATCH-DOES-NOT-APPLY" > $REGTMP/$id; rm -rf $W; return; }
  out=$(cd /verif && VERIF_STOP_ON_FIRST=1 VERIF_SHRINK_S=20 VERIF_REPO=$W timeout 3000 /venv/bin/python run.py $prop --tier quick 2>&1)
  rc=$?
  orc=$(echo "$out" | grep "oracle=" | head -1 | sed 's/ detail=.*//' | tr -s ' ')
  echo "$id $prop expect_exit=$expect exit=$rc $orc" > $REGTMP/$id
  rm -rf $W
}
export -f one; export REGTMP
ls /verif/seeded | grep -v REGRESSION | grep "${2:-.}" | xargs -P $P -I{} bash -c 'one {}'
cat $REGTMP/* /dev/shm/reg-keep/* 2>/dev/null | grep "^C[01][0-9]-" | sort -u > $OUT
rm -rf $REGTMP
echo "ok=$(awk '{split($3,a,"=");split($4,b,"="); if (a[2]==b[2]) n++} END{print n+0}' $OUT) of $(wc -l < $OUT)" >> $OUT
tail -1 $OUT
