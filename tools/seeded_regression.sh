#!/bin/bash
# Re-runs every seeded change against the quick check of the property it breaks (scratch copies, VERIF_REPO).
# usage: seeded_regression.sh [parallelism]   -> writes /verif/seeded/REGRESSION.txt
P=${1:-2}
OUT=/verif/seeded/REGRESSION.txt
TMP=$(mktemp -d /dev/shm/clsim-reg-XXXXXX)
one() {
  id=$1
  d=/verif/seeded/$id
  prop=$(/venv/bin/python -c "import json;m=json.load(open('$d/meta.json'));print(m['breaks_property'] or '$id'.split('-')[0])")
  expect=$(/venv/bin/python -c "import json;m=json.load(open('$d/meta.json'));print(1 if m['breaks_property'] else 0)")
  W=$(mktemp -d /dev/shm/clsim-try-XXXXXX)
  git -C /repo archive HEAD | tar -x -C $W
  (cd $W && git init -q . 2>/dev/null && git apply $d/patch.diff) || { echo "$id $prop PATCH-DOES-NOT-APPLY" > $TMP/$id; rm -rf $W; return; }
  out=$(cd /verif && VERIF_STOP_ON_FIRST=1 VERIF_REPO=$W timeout 3000 /venv/bin/python run.py $prop --tier quick 2>&1)
  rc=$?
  orc=$(echo "$out" | grep "oracle=" | head -1 | sed 's/ detail=.*//' | tr -s ' ')
  echo "$id $prop expect_exit=$expect exit=$rc $orc" > $TMP/$id
  rm -rf $W
}
export -f one; export TMP
ls /verif/seeded | grep -v REGRESSION | grep "${2:-.}" | xargs -P $P -I{} bash -c 'one {}'
cat $TMP/* /dev/shm/reg-keep/* 2>/dev/null | sort -u > $OUT
rm -rf $TMP
echo "ok=$(awk '{split($3,a,"=");split($4,b,"="); if (a[2]==b[2]) n++} END{print n+0}' $OUT) of $(wc -l < $OUT)" >> $OUT
tail -1 $OUT
