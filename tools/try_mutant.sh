#!/bin/bash
# usage: try_mutant.sh <property> <mutant_dir containing patch.diff demo.py> [extra run.py args]
# Confirms the mutant (suite passes, demo fails with / passes without), then runs the quick check against it.
set -u
PROP=$1; MDIR=$(realpath $2); shift 2
W=$(mktemp -d /dev/shm/clsim-try-XXXXXX)
trap 'rm -rf $W' EXIT
git -C /repo archive HEAD | tar -x -C $W
cd $W
mkdir -p _mutants/m && cp $MDIR/demo.py _mutants/m/demo.py
export PYTHONDONTWRITEBYTECODE=1
echo "--- demo on clean copy:"; PYTHONPATH=$W timeout 300 /venv/bin/python _mutants/m/demo.py 2>&1 | tail -2; echo "rc=${PIPESTATUS[0]}"
git init -q . 2>/dev/null; git apply $MDIR/patch.diff || { echo "PATCH DOES NOT APPLY"; exit 3; }
echo "--- suite with patch:"; PYTHONPATH=$W timeout 900 /venv/bin/python -m pytest -q -p no:cacheprovider 2>&1 | tail -1
echo "--- demo with patch:"; PYTHONPATH=$W timeout 300 /venv/bin/python _mutants/m/demo.py 2>&1 | tail -3; echo "rc=${PIPESTATUS[0]}"
echo "--- check $PROP quick against the mutant:"
cd /verif && VERIF_REPO=$W timeout 1800 /venv/bin/python run.py $PROP --tier quick "$@" 2>&1 | grep -v "^HARNESS" | tail -8
echo "check rc=${PIPESTATUS[0]}"
