"""The simulated world: one real tmpfs directory tree, a cache directory, a
configuration, and a sequence of short-lived simulated codelimit processes.
"""
from __future__ import annotations

import contextlib
import errno
import hashlib
import io
import json
import logging
import os
import shutil
import sys
import tempfile
import traceback

from . import seams
from .seams import CTX, REAL, SimCrash, StepBudgetExceeded, stream
from .corpus import content_bytes

CACHE_DIR = ".codelimit_cache"
CACHE_FILE = "codelimit.json"
MARKERS = ("CACHEDIR.TAG", ".gitignore")
STEP_BUDGET = 3_000_000
_TOOL = 4


def scratch_parent():
    for d in ("/dev/shm", tempfile.gettempdir()):
        if os.path.isdir(d) and os.access(d, os.W_OK):
            return d
    return tempfile.gettempdir()


def world_parent():
    """Directory the worlds of this process are created in.  A coordinator creates one
    (`cls-<8 chars>`, passed down in VERIF_SCRATCH) and removes it with everything killed workers
    left behind; a stand-alone process (replay, shrink, self-test) creates its own.  The path has
    the same length either way, so byte offsets inside a report - and with them the mutation ticks
    recorded in a replay file - do not move."""
    d = os.environ.get("VERIF_SCRATCH")
    if d and os.path.isdir(d):
        return d, False
    return tempfile.mkdtemp(prefix="cls-", dir=scratch_parent()), True


def _ropen(path, mode="rb"):
    return REAL["io.open"](path, mode)


def read_bytes(path) -> bytes:
    with _ropen(path, "rb") as f:
        return f.read()


def write_bytes(path, b: bytes, mtime_delta=0.0):
    with _ropen(path, "wb") as f:
        f.write(b)
    stamp(path, mtime_delta)


def stamp(path, delta=0.0):
    """File times are nondeterminism too: every file the harness or a simulated process
    writes gets its mtime from the simulated clock (plus a delta for back-dated copies)."""
    t = CTX.clock.timestamp() + delta
    try:
        os.utime(path, (t, t))
    except OSError:
        pass


def list_tree(root):
    """Sorted list of (relpath, is_dir) below root, real order-independent."""
    out = []
    stack = [""]
    while stack:
        rel = stack.pop()
        full = os.path.join(root, rel) if rel else root
        with os.scandir(full) as it:
            ents = sorted(it, key=lambda e: e.name)
        for e in ents:
            r = os.path.join(rel, e.name) if rel else e.name
            if e.is_dir(follow_symlinks=False):
                out.append((r, True))
                stack.append(r)
            else:
                out.append((r, False))
    out.sort()
    return out


# ----------------------------------------------------------------------------
# step budget (bounded liveness) via sys.monitoring
# ----------------------------------------------------------------------------
class _Steps:
    n = 0
    limit = STEP_BUDGET
    on = False
    active = False
    codes = 0


def _py_start(code, offset):
    if _Steps.active:
        _Steps.n += 1
        if _Steps.n > _Steps.limit:
            _Steps.limit = 1 << 62  # raise once
            raise StepBudgetExceeded("step budget exceeded")


def _jump(code, src, dst):
    # loop iterations count as steps too: a loop that calls nothing must not escape the budget
    if _Steps.active:
        _Steps.n += 1
        if _Steps.n > _Steps.limit:
            _Steps.limit = 1 << 62
            raise StepBudgetExceeded("step budget exceeded")


def _codelimit_code_objects():
    """Every code object defined in a codelimit module (functions, methods, properties,
    nested functions, lambdas, comprehensions)."""
    import inspect
    import types
    out = set()

    def rec(co):
        if co in out:
            return
        out.add(co)
        for c in co.co_consts:
            if isinstance(c, types.CodeType):
                rec(c)
    for name, mod in list(sys.modules.items()):
        if mod is None or not (name == "codelimit" or name.startswith("codelimit.")):
            continue
        for v in list(vars(mod).values()):
            f = getattr(v, "__wrapped__", None) or getattr(v, "__func__", v)
            if inspect.isfunction(f) and getattr(f, "__module__", "").startswith("codelimit"):
                rec(f.__code__)
            if inspect.isclass(v) and getattr(v, "__module__", None) == name:
                for cv in list(vars(v).values()):
                    f = cv.fget if isinstance(cv, property) else getattr(cv, "__func__", cv)
                    if inspect.isfunction(f):
                        rec(f.__code__)
    return out


def _steps_begin(limit=STEP_BUDGET):
    """Steps = function starts and jumps (loop iterations) executed *inside codelimit's own
    code*: local monitoring events on its code objects only, so rendering, lexing and
    copying in third-party code cost nothing and cannot exhaust the budget."""
    mon = sys.monitoring
    if not _Steps.on:
        try:
            mon.use_tool_id(_TOOL, "worldsim")
        except ValueError:
            pass
        mon.register_callback(_TOOL, mon.events.PY_START, _py_start)
        mon.register_callback(_TOOL, mon.events.JUMP, _jump)
        codes = _codelimit_code_objects()
        for co in codes:
            mon.set_local_events(_TOOL, co, mon.events.PY_START | mon.events.JUMP)
        _Steps.codes = len(codes)
        _Steps.on = True
    _Steps.n = 0
    _Steps.limit = limit
    _Steps.active = True


def _steps_end() -> int:
    _Steps.active = False
    return _Steps.n


# ----------------------------------------------------------------------------
class World:
    def __init__(self, budget=STEP_BUDGET, dot_root=False):
        parent, self._own_parent = world_parent()
        self._parent = parent
        self.base = tempfile.mkdtemp(prefix="clsim-", dir=parent)
        # `top` holds the codebase root and its sibling `outside`; with dot_root the whole
        # checkout lives below a dot-directory (~/.jenkins/workspace/proj): only components
        # BELOW the root may hide a file
        self.top = os.path.join(self.base, ".ws") if dot_root else self.base
        if dot_root:
            REAL["os.mkdir"](self.top)
        self.root = os.path.join(self.top, "root")
        self.outside = os.path.join(self.top, "outside")
        REAL["os.mkdir"](self.root)
        REAL["os.mkdir"](self.outside)
        self.cli_excludes: list[str] = []
        self.yml_patterns = None      # root .codelimit.yml exclude list (None = no file)
        self.gi_patterns = None       # root .gitignore lines (None = no file)
        self.git = "none"
        self.env = {}                 # GITHUB_REF / GITHUB_HEAD_REF seen by every simulated process
        self.spelling = "dot"
        self.home_cwd = os.getcwd()
        self.budget = budget
        self.extra_budget = 0          # allowance for exceptionally expensive texts written into this world
        self.text_budget = 0           # allowance for the one text an analysis-level op is about to analyse
        self.steps_total = 0
        self.sim_seconds = 0.0
        self.closed = False

    # -- housekeeping ---------------------------------------------------------
    def close(self):
        if not self.closed:
            try:
                os.chdir(self.home_cwd)
            except OSError:
                pass
            shutil.rmtree(self.base, ignore_errors=True)
            if self._own_parent:
                shutil.rmtree(self._parent, ignore_errors=True)
            self.closed = True

    def __enter__(self):
        return self

    def __exit__(self, *exc):
        self.close()
        return False

    def p(self, rel: str) -> str:
        return os.path.join(self.root, rel)

    @property
    def cache_dir(self):
        return os.path.join(self.root, CACHE_DIR)

    @property
    def cache_file(self):
        return os.path.join(self.root, CACHE_DIR, CACHE_FILE)

    def norm(self, text: str) -> str:
        return text.replace(self.base, "<BASE>")

    # -- world edits ----------------------------------------------------------
    def _parents_ok(self, rel: str, create: bool) -> bool:
        parts = rel.split("/")[:-1]
        cur = self.root
        for part in parts:
            cur = os.path.join(cur, part)
            if os.path.isdir(cur):
                continue
            if os.path.lexists(cur):
                return False
            if not create:
                return False
            REAL["os.mkdir"](cur)
        return True

    def op_write(self, path, content, mtime_delta=0.0):
        full = self.p(path)
        if os.path.isdir(full):
            return {"noop": "is_dir"}
        if not self._parents_ok(path, True):
            return {"noop": "parent_is_file"}
        write_bytes(full, content_bytes(content), mtime_delta)
        if isinstance(content, str):
            from .corpus import CONTENTS
            self.extra_budget += 8 * CONTENTS[content].get("steps", 0)
        return {}

    def _prune_dangling(self):
        """Links whose target an edit removed are removed with it (the properties say nothing
        about dangling links; the user who deletes a file deletes its aliases)."""
        for rel, is_dir in list_tree(self.root):
            full = os.path.join(self.root, rel)
            if os.path.islink(full) and not os.path.exists(full):
                REAL["os.unlink"](full)

    def op_delete(self, path):
        full = self.p(path)
        if os.path.isdir(full) and not os.path.islink(full):
            shutil.rmtree(full)
        elif os.path.lexists(full):
            REAL["os.unlink"](full)
        else:
            return {"noop": "missing"}
        self._prune_dangling()
        return {}

    def op_rename(self, src, dst, overwrite=False):
        a, b = self.p(src), self.p(dst)
        if overwrite and os.path.isfile(a) and os.path.isfile(b) and a != b:
            REAL["os.replace"](a, b)      # mv old new: the content arrives with its old mtime
            self._prune_dangling()
            return {"replaced": True}
        if not os.path.lexists(a) or os.path.lexists(b):
            return {"noop": "src_missing_or_dst_exists"}
        if (dst + "/").startswith(src + "/"):
            return {"noop": "into_itself"}
        if not self._parents_ok(dst, True):
            return {"noop": "parent_is_file"}
        REAL["os.rename"](a, b)
        self._prune_dangling()
        return {}

    def op_touch(self, path):
        full = self.p(path)
        if not os.path.isfile(full):
            return {"noop": "missing"}
        write_bytes(full, read_bytes(full))
        return {}

    def op_swap(self, a, b, by_rename=False):
        fa, fb = self.p(a), self.p(b)
        if not (os.path.isfile(fa) and os.path.isfile(fb)):
            return {"noop": "missing"}
        if by_rename:
            tmp = fa + ".swp~"            # three renames: each content keeps its own mtime
            REAL["os.rename"](fa, tmp)
            REAL["os.rename"](fb, fa)
            REAL["os.rename"](tmp, fb)
            return {}
        ba, bb = read_bytes(fa), read_bytes(fb)
        write_bytes(fa, bb)
        write_bytes(fb, ba)
        return {}

    def op_link(self, src, dst, hard=False):
        """A second name for an existing file: relative symlink or hard link."""
        a, b = self.p(src), self.p(dst)
        if not os.path.isfile(a) or os.path.lexists(b) or not self._parents_ok(dst, True):
            return {"noop": "src_missing_or_dst_exists"}
        if hard:
            os.link(a, b)
        else:
            os.symlink(os.path.relpath(a, os.path.dirname(b)), b)
        CTX.counters["link_" + ("hard" if hard else "sym")] += 1
        return {}

    def op_mkdir(self, path):
        full = self.p(path)
        if os.path.lexists(full) or not self._parents_ok(path + "/x", True):
            return {"noop": "exists"}
        REAL["os.mkdir"](full)
        return {}

    def op_corrupt(self, path, kind, arg=None):
        from .faults import corrupt_bytes
        full = self.p(path)
        if not os.path.isfile(full):
            return {"noop": "missing"}
        b = read_bytes(full)
        nb = corrupt_bytes(b, kind, arg)
        write_bytes(full, nb)
        CTX.counters["corrupt_" + kind] += 1
        return {"changed": nb != b}

    @staticmethod
    def _encodable(patterns):
        """Exclusion patterns are text: a pattern aimed at a file name that is not valid UTF-8
        cannot be written into a UTF-8 configuration file and is left out."""
        out = []
        for p in patterns:
            try:
                p.encode("utf-8")
                out.append(p)
            except UnicodeEncodeError:
                pass
        return out

    def op_set_yml(self, patterns, verbose=None, where=""):
        if patterns is not None:
            patterns = self._encodable(patterns)
        full = self.p(os.path.join(where, ".codelimit.yml") if where else ".codelimit.yml")
        if where and not os.path.isdir(self.p(where)):
            return {"noop": "missing_dir"}
        if not where:
            self.yml_patterns = None if patterns is None else list(patterns)
        if patterns is None:
            if os.path.lexists(full):
                REAL["os.unlink"](full)
            return {}
        lines = ["exclude:"] + ["  - %s" % json.dumps(p) for p in patterns]
        if not patterns:
            lines = ["exclude: []"]
        if verbose is not None:
            lines.append("verbose: %s" % ("true" if verbose else "false"))
        write_bytes(full, ("\n".join(lines) + "\n").encode())
        return {}

    def op_set_gitignore(self, patterns, where="", eol="\n", final_eol=True):
        if patterns is not None:
            patterns = self._encodable(patterns)
        full = self.p(os.path.join(where, ".gitignore") if where else ".gitignore")
        if where and not os.path.isdir(self.p(where)):
            return {"noop": "missing_dir"}
        if not where:
            self.gi_patterns = None if patterns is None else list(patterns)
        if patterns is None:
            if os.path.lexists(full):
                REAL["os.unlink"](full)
            return {}
        write_bytes(full, (eol.join(patterns) + (eol if final_eol else "")).encode())
        return {}

    # -- cache faults ---------------------------------------------------------
    def cache_bytes(self):
        try:
            return read_bytes(self.cache_file)
        except OSError:
            return None

    def cache_json(self):
        b = self.cache_bytes()
        if b is None:
            return None
        try:
            return json.loads(b.decode("utf-8"))
        except (ValueError, UnicodeDecodeError):
            return None

    def op_cache_truncate(self, k=None, frac=None):
        b = self.cache_bytes()
        if b is None:
            return {"noop": "no_cache"}
        if k is None:
            k = int(len(b) * frac)
        k = max(0, min(len(b), k))
        write_bytes(self.cache_file, b[:k])
        CTX.counters["cache_truncate"] += 1
        return {"k": k, "of": len(b)}

    def op_cache_flip(self, k, xor):
        """Bit rot: one byte of the stored report is XOR-ed with `xor`."""
        b = self.cache_bytes()
        if not b:
            return {"noop": "no_cache"}
        k = k % len(b)
        nb = b[:k] + bytes([b[k] ^ (xor & 0xFF or 1)]) + b[k + 1:]
        write_bytes(self.cache_file, nb)
        CTX.counters["cache_flip"] += 1
        return {"k": k, "of": len(b)}

    def op_cache_hibit(self, field, nth=0):
        """Bit rot aimed at a string value: the top bit of one character inside the nth value of
        `field` is set, which makes the file invalid UTF-8 while every structural byte survives."""
        b = self.cache_bytes()
        if not b:
            return {"noop": "no_cache"}
        needle = ('"%s": "' % field).encode()
        pos = -1
        for _ in range(nth + 1):
            pos = b.find(needle, pos + 1)
            if pos < 0:
                return {"noop": "field_missing"}
        k = pos + len(needle) + 2
        if k >= len(b) or b[k:k + 1] == b'"' or b[k - 1:k] == b'"' or b[k - 2:k - 1] == b'"':
            return {"noop": "value_too_short"}
        write_bytes(self.cache_file, b[:k] + bytes([b[k] | 0x80]) + b[k + 1:])
        CTX.counters["cache_hibit_" + field] += 1
        return {"k": k}

    def op_cache_replace(self, kind):
        from .faults import CACHE_REPLACEMENTS, CACHE_DERIVED
        if kind in ("marker_torn", "marker_garbage"):
            if not os.path.isdir(self.cache_dir):
                return {"noop": "no_cache"}
            write_bytes(os.path.join(self.cache_dir, MARKERS[0]), b"Signa")
            if kind == "marker_garbage":
                write_bytes(os.path.join(self.cache_dir, MARKERS[1]), b"\x00\xff")
            CTX.counters["cache_replace_" + kind] += 1
            return {}
        if kind in CACHE_DERIVED:
            b = self.cache_bytes()
            if b is None:
                return {"noop": "no_cache"}
            if kind == "stale_tail":      # shorter new content over longer old one, no truncate
                nb = b + b[len(b) // 2:]
            elif kind == "doubled":       # the write was applied twice
                nb = b + b
            else:                         # an editor re-saved it with a BOM
                nb = b"\xef\xbb\xbf" + b
            write_bytes(self.cache_file, nb)
            CTX.counters["cache_replace_" + kind] += 1
            return {}
        if not os.path.isdir(self.cache_dir):
            REAL["os.mkdir"](self.cache_dir)
        write_bytes(self.cache_file, CACHE_REPLACEMENTS[kind])
        CTX.counters["cache_replace_" + kind] += 1
        return {}

    def op_cache_mutate(self, jpath, mutation, value=None):
        from .faults import mutate_json
        d = self.cache_json()
        if d is None:
            return {"noop": "no_valid_cache"}
        ok = mutate_json(d, jpath, mutation, value)
        if not ok:
            return {"noop": "path_missing"}
        write_bytes(self.cache_file, json.dumps(d, indent=2).encode("utf-8"))
        CTX.counters["cache_mutate_" + mutation] += 1
        return {}

    def op_cache_delete(self, what):
        if what == "file":
            targets = [self.cache_file]
        elif what == "markers":
            targets = [os.path.join(self.cache_dir, m) for m in MARKERS]
        elif what in MARKERS:
            targets = [os.path.join(self.cache_dir, what)]
        elif what == "dir":
            if os.path.isdir(self.cache_dir):
                shutil.rmtree(self.cache_dir)
                CTX.counters["cache_delete_dir"] += 1
                return {}
            return {"noop": "missing"}
        else:
            raise KeyError(what)
        n = 0
        for t in targets:
            if os.path.lexists(t):
                REAL["os.unlink"](t)
                n += 1
        CTX.counters["cache_delete_" + ("markers" if what != "file" else "file")] += 1
        return {"removed": n}

    # -- snapshot / restore of the cache dir (used by reference scans) -------
    def stash_cache(self):
        st = os.path.join(self.base, "stash")
        if os.path.lexists(st):
            shutil.rmtree(st)
        if os.path.isdir(self.cache_dir):
            REAL["os.rename"](self.cache_dir, st)
            return True
        return False

    def unstash_cache(self, had):
        st = os.path.join(self.base, "stash")
        if os.path.isdir(self.cache_dir):
            shutil.rmtree(self.cache_dir)
        if had:
            REAL["os.rename"](st, self.cache_dir)

    def snapshot_tree(self):
        dst = os.path.join(self.base, "snap")
        if os.path.lexists(dst):
            shutil.rmtree(dst)
        shutil.copytree(self.root, dst, symlinks=True)

    def restore_tree(self):
        src = os.path.join(self.base, "snap")
        os.chdir(self.base)
        shutil.rmtree(self.root)
        shutil.copytree(src, self.root, symlinks=True)

    # -- processes --------------------------------------------------------------
    def _spelling(self, spelling=None):
        """(cwd, path argument) for the current root spelling."""
        sp = spelling or self.spelling
        name = os.path.basename(self.root)
        if sp == "dot":
            return self.root, "."
        if sp == "rel_parent":
            return self.top, name
        if sp == "abs":
            return self.outside, self.root
        if sp == "dotdot":
            return self.root, os.path.join("..", name)
        if sp == "abs_dotdot":
            return self.outside, os.path.join(self.outside, "..", name)
        if sp == "rel_outside":
            return self.outside, os.path.join("..", name)
        if sp == "trailing":
            return self.top, name + os.sep
        if sp in ("symlink", "symlink_abs"):
            link = os.path.join(self.base, "link")
            if not os.path.islink(link):
                os.symlink(self.root, link)
            return (self.base, "link") if sp == "symlink" else (self.outside, link)
        if sp == "symlink_dotdot":
            # <base>/ln/link3 -> <top>/outside ; "<base>/ln/link3/../root" is the root for the kernel
            # (.. of the link TARGET) but not after a purely textual normalisation
            ln = os.path.join(self.base, "ln")
            if not os.path.isdir(ln):
                REAL["os.mkdir"](ln)
                os.symlink(self.outside, os.path.join(ln, "link3"))
            return self.base, os.path.join("ln", "link3", "..", name)
        raise KeyError(sp)

    def run_process(self, fn, nonce, cwd, fault=None, record_io=False, set_policy="mixed",
                    walk_policy="shuffled", env=None, new_process=True, read_fault=None, walk_nonce=None):
        """Run `fn()` as one simulated codelimit process (new_process=False: one
        more call inside the same long-lived process, library mode)."""
        from codelimit.common.Configuration import Configuration
        import click
        # what a real process start would reset
        if new_process:
            seams.restore_module_state(cwd=cwd)
        Configuration.exclude = []
        Configuration.verbose = False
        Configuration.repository = None
        root_logger = logging.getLogger()
        for h in list(root_logger.handlers):
            root_logger.removeHandler(h)
        CTX.set_rng = stream(nonce, "set")
        CTX.set_policy = set_policy
        CTX.walk_rng = stream(nonce if walk_nonce is None else walk_nonce, "walk")
        CTX.walk_salt = "%s" % (nonce if walk_nonce is None else walk_nonce)
        CTX.walk_policy = walk_policy
        CTX.io_root = self.base
        CTX.io_plan = dict(fault) if fault else None
        CTX.read_plan = dict(read_fault) if read_fault else None
        CTX.read_n = 0
        CTX.io_tick = 0
        CTX.io_dead = False
        CTX.io_full = False
        CTX.io_fired = None
        CTX.io_events = []
        seams._FD_PATHS.clear()
        CTX.io_record = record_io
        CTX.git = self.git
        CTX.analysed = []
        CTX.analysed_paths = []
        CTX.last_live = None
        saved_env = {}
        env = dict(self.env, **(env or {}))
        for k, v in env.items():
            saved_env[k] = os.environ.get(k)
            if v is None:
                os.environ.pop(k, None)
            else:
                os.environ[k] = v
        out, err = io.StringIO(), io.StringIO()
        obs = {}
        os.chdir(cwd)
        # bounded liveness: the budget grows with the tree (largest corpus text costs ~0.4 M
        # steps), so only a loop that does not terminate exhausts it
        n_files = total_bytes = 0
        if self.budget >= STEP_BUDGET:
            for r, is_dir in list_tree(self.root):
                if not is_dir:
                    n_files += 1
                    try:
                        total_bytes += os.path.getsize(os.path.join(self.root, r))
                    except OSError:
                        pass
        # measured worst case of linear inputs: 64 steps per byte (a UTF-16 file read as Latin-1)
        _steps_begin(max(self.budget, 600_000 * n_files, 250 * total_bytes) + self.extra_budget + self.text_budget)
        CTX.active = True
        try:
            with contextlib.redirect_stdout(out), contextlib.redirect_stderr(err):
                try:
                    fn()
                    obs["outcome"] = "ok"
                except click.exceptions.Exit as e:
                    obs["outcome"] = "exit"
                    obs["code"] = e.exit_code
                except SystemExit as e:
                    obs["outcome"] = "exit"
                    obs["code"] = e.code if isinstance(e.code, int) else 1
                except SimCrash:
                    obs["outcome"] = "crashed"
                except StepBudgetExceeded:
                    obs["outcome"] = "hang"
                    obs["where"] = _innermost(sys.exc_info()[2])
                except KeyboardInterrupt:
                    raise
                except BaseException as e:  # noqa: BLE001 - classified, not hidden
                    fired = CTX.io_fired
                    if (isinstance(e, OSError) and fired is not None
                            and e.errno in (errno.ENOSPC, errno.EIO)):
                        obs["outcome"] = "io_error"
                        obs["errno"] = e.errno
                    else:
                        obs["outcome"] = "internal_error"
                        obs["exc"] = type(e).__name__
                        obs["where"] = _innermost(e.__traceback__)
                        obs["msg"] = self.norm(str(e))[:200]
                        obs["tb"] = self.norm("".join(traceback.format_exception(e))[-1500:])
        finally:
            CTX.active = False
            steps = _steps_end()
            os.chdir(self.base)
            for k, v in saved_env.items():
                if v is None:
                    os.environ.pop(k, None)
                else:
                    os.environ[k] = v
            for h in list(root_logger.handlers):
                root_logger.removeHandler(h)
        # whatever the process wrote (the cache directory) is stamped with the simulated time
        cd = self.cache_dir
        if os.path.isdir(cd):
            stamp(cd)
            for n in os.listdir(cd):
                stamp(os.path.join(cd, n))
        self.steps_total += steps
        obs["steps"] = steps
        obs["stdout"] = out.getvalue()
        obs["stderr"] = err.getvalue()
        if CTX.io_fired:
            obs["fault_fired"] = dict(CTX.io_fired)
        obs["io_ticks"] = CTX.io_tick
        obs["reads"] = CTX.read_n
        CTX.read_plan = None
        if record_io:
            obs["io_events"] = list(CTX.io_events)
        obs["analysed"] = list(CTX.analysed)
        obs["analysed_paths"] = list(CTX.analysed_paths)
        obs["_live"] = CTX.last_live      # not serialised: read by the grand-totals oracle only
        CTX.counters["proc_" + obs["outcome"]] += 1
        return obs

    def scan(self, nonce, fault=None, record_io=False, spelling=None, verbose=False,
             set_policy="mixed", walk_policy="shuffled", env=None, excludes=None, read_fault=None, walk_nonce=None,
             new_process=True):
        import codelimit.__main__ as cli
        from pathlib import Path
        cwd, arg = self._spelling(spelling)
        ex = list(self.cli_excludes if excludes is None else excludes)

        def fn():
            cli.scan(path=Path(arg), exclude=ex or None, verbose=verbose)
        obs = self.run_process(fn, nonce, cwd, fault, record_io, set_policy, walk_policy, env, read_fault=read_fault,
                               walk_nonce=walk_nonce, new_process=new_process)
        obs["cache_bytes_len"] = len(self.cache_bytes() or b"") if os.path.exists(self.cache_file) else None
        return obs

    def check(self, args, cwd_mode, quiet, nonce, set_policy="mixed", walk_policy="shuffled", excludes=None,
              new_process=True):
        import codelimit.__main__ as cli
        from pathlib import Path
        cwd = {"root": self.root, "outside": self.outside, "base": self.top}.get(cwd_mode)
        if cwd is None and cwd_mode.startswith("sub:"):
            cwd = self.p(cwd_mode[4:])
            if not os.path.isdir(cwd):
                return {"outcome": "skipped", "why": "cwd missing"}
        paths = []
        for a in args:
            a = a.replace("<ROOT>", self.root).replace("<BASE>", self.base)
            full = a if os.path.isabs(a) else os.path.join(cwd, a)
            if not os.path.exists(full):
                return {"outcome": "skipped", "why": "path missing"}
            paths.append(Path(a))
        ex = list(self.cli_excludes if excludes is None else excludes)

        def fn():
            cli.check(paths=paths, exclude=ex or None, quiet=quiet, verbose=False)
        return self.run_process(fn, nonce, cwd, None, False, set_policy, walk_policy, new_process=new_process)

    @property
    def baseline_file(self):
        return os.path.join(self.outside, "baseline.json")

    def op_save_baseline(self, version=None):
        """Keep a copy of the current report as a comparison baseline (`report --diff FILE`),
        optionally stamped as written by another version."""
        d = self.cache_json()
        if not isinstance(d, dict) or "codebase" not in d:
            return {"noop": "no_valid_cache"}
        if version is not None:
            if version == "<absent>":
                d.pop("version", None)
            else:
                d["version"] = version
        write_bytes(self.baseline_file, json.dumps(d, indent=2).encode())
        return {"version": d.get("version")}

    def report(self, fmt, nonce, spelling=None, diff=False):
        import codelimit.__main__ as cli
        from codelimit.common.report.ReportFormat import ReportFormat
        from pathlib import Path
        cwd, arg = self._spelling(spelling)
        dpath = Path(self.baseline_file) if diff and os.path.isfile(self.baseline_file) else None

        def fn():
            cli.report(path=Path(arg), diff=dpath, fmt=ReportFormat(fmt))
        obs = self.run_process(fn, nonce, cwd)
        obs["diff_used"] = dpath is not None
        return obs

    def findings(self, fmt, full, nonce, spelling=None):
        import codelimit.__main__ as cli
        from codelimit.common.report.ReportFormat import ReportFormat
        from pathlib import Path
        cwd, arg = self._spelling(spelling)

        def fn():
            cli.findings(path=Path(arg), full=full, fmt=ReportFormat(fmt))
        return self.run_process(fn, nonce, cwd)

    # -- state abstraction (for reach measures) -----------------------------
    def tree_digest(self):
        h = hashlib.sha1()
        for rel, is_dir in list_tree(self.root):
            if rel == CACHE_DIR or rel.startswith(CACHE_DIR + os.sep):
                continue
            h.update(rel.encode("utf-8", "surrogateescape"))
            if not is_dir:
                h.update(hashlib.md5(read_bytes(self.p(rel))).digest())
            h.update(b"\0")
        return h.hexdigest()[:16]

    def cache_class(self):
        if not os.path.isdir(self.cache_dir):
            return "none"
        b = self.cache_bytes()
        if b is None:
            return "dir_only"
        markers = all(os.path.exists(os.path.join(self.cache_dir, m)) for m in MARKERS)
        if b == b"":
            c = "empty"
        else:
            try:
                d = json.loads(b.decode("utf-8"))
                if isinstance(d, dict) and "codebase" in d:
                    c = "valid"
                else:
                    c = "wrong_shape"
            except (ValueError, UnicodeDecodeError):
                c = "torn"
        return c + ("" if markers else "_nomarkers")


def _innermost(tb):
    """(file, function) of the innermost frame inside the codelimit package."""
    best = None
    last = None
    while tb is not None:
        f = tb.tb_frame
        fn = f.f_code.co_filename
        last = (os.path.basename(fn), f.f_code.co_name)
        if "/codelimit/" in fn.replace(os.sep, "/") and "/verif/" not in fn:
            best = (os.path.basename(fn), f.f_code.co_name)
        tb = tb.tb_next
    return list(best or last or ("?", "?"))
