"""Seams: every source of nondeterminism / environment contact that the claimed
properties depend on is routed through the objects in this module.

All seams are installed by assigning module attributes from the harness
(`install()`); nothing in /repo is modified.  The current run's choices live in
the module-global `CTX`.
"""
from __future__ import annotations

import builtins
import errno
import hashlib
import io
import os
import random
import sys
from collections import Counter
from datetime import datetime, timedelta, timezone

# ----------------------------------------------------------------------------
# real functions, captured before anything is patched
# ----------------------------------------------------------------------------
REAL = {
    "os.open": os.open,
    "os.write": os.write,
    "os.close": os.close,
    "os.walk": os.walk,
    "io.open": io.open,
    "builtins.open": builtins.open,
    "os.mkdir": os.mkdir,
    "os.replace": os.replace,
    "os.rename": os.rename,
    "os.unlink": os.unlink,
    "os.remove": os.remove,
    "os.rmdir": os.rmdir,
    "set": builtins.set,
}


def stream(*parts) -> random.Random:
    """Named PRNG stream.  str seeding hashes with SHA-512, so the stream does
    not depend on PYTHONHASHSEED."""
    return random.Random("/".join(str(p) for p in parts))


class SimCrash(BaseException):
    """The simulated process died at an injected crash point."""


class StepBudgetExceeded(BaseException):
    """Bounded-liveness budget exhausted (deterministic step count)."""


# ----------------------------------------------------------------------------
# run context
# ----------------------------------------------------------------------------
class Ctx:
    def __init__(self):
        self.reset_run()

    def reset_run(self):
        self.active = False          # seams only interfere while a sim op runs
        self.set_rng = None
        self.set_policy = "insertion"
        self.walk_rng = None
        self.walk_salt = ""
        self.walk_policy = "sorted"
        self.io_root = None          # str prefix: faults only apply below it
        self.io_plan = None          # dict(kind, tick) or None
        self.io_tick = 0
        self.io_dead = False         # after a crash nothing more reaches disk
        self.io_full = False         # after ENOSPC the disk stays full for the op
        self.io_events = []          # recorded mutating events of this op
        self.io_record = False
        self.io_fired = None
        self.clock = datetime(2026, 1, 1, tzinfo=timezone.utc)
        self.uuid_n = 0
        self.git = "none"
        self.counters = Counter()
        self.set_orders = builtins.set()
        self.walk_orders = builtins.set()
        self.analysed = []           # (lexer name, code digest) seen by lex seam
        self.analysed_paths = []     # rel paths seen by the _analyze_file recorder
        self.module_state_dirty = builtins.set()
        self.last_live = None        # last renderable handed to the Live display
        self.read_plan = None        # {"n": k}: the k-th open-for-reading of a tree file fails with EIO
        self.read_n = 0


CTX = Ctx()


# ----------------------------------------------------------------------------
# S1: set iteration order
# ----------------------------------------------------------------------------
class SimSet(set):
    """A `set` whose iteration order is a choice of the simulator.

    It is a real `set` subclass (isinstance, C fast paths for membership,
    equality, len keep working) that additionally keeps its elements in a dict
    (insertion order, deterministic) and yields them permuted according to the
    run's policy, drawing from the run's `set` PRNG stream.
    """

    __slots__ = ("_o",)

    def __init__(self, iterable=()):
        set.__init__(self)
        self._o = {}
        for x in iterable:
            self.add(x)

    # -- mutators keep the order dict in sync --------------------------------
    def add(self, x):
        if x not in self._o:
            self._o[x] = None
            set.add(self, x)

    def discard(self, x):
        if x in self._o:
            del self._o[x]
            set.discard(self, x)

    def remove(self, x):
        if x not in self._o:
            raise KeyError(x)
        self.discard(x)

    def pop(self):
        if not self._o:
            raise KeyError("pop from an empty set")
        x = next(iter(self))
        self.discard(x)
        return x

    def clear(self):
        self._o.clear()
        set.clear(self)

    def update(self, *others):
        for other in others:
            for x in other:
                self.add(x)

    def difference_update(self, *others):
        for other in others:
            for x in list(other):
                self.discard(x)

    def intersection_update(self, *others):
        for other in others:
            keep = REAL["set"](other)
            for x in list(self._o):
                if x not in keep:
                    self.discard(x)

    def symmetric_difference_update(self, other):
        other = list(REAL["set"](other))
        for x in other:
            if x in self._o:
                self.discard(x)
            else:
                self.add(x)

    def __ior__(self, other):
        self.update(other)
        return self

    def __iand__(self, other):
        self.intersection_update(other)
        return self

    def __isub__(self, other):
        self.difference_update(other)
        return self

    def __ixor__(self, other):
        self.symmetric_difference_update(other)
        return self

    # -- constructors of new sets --------------------------------------------
    def copy(self):
        return SimSet(self._o)

    def union(self, *others):
        r = self.copy()
        r.update(*others)
        return r

    def intersection(self, *others):
        r = self.copy()
        r.intersection_update(*others)
        return r

    def difference(self, *others):
        r = self.copy()
        r.difference_update(*others)
        return r

    def symmetric_difference(self, other):
        r = self.copy()
        r.symmetric_difference_update(other)
        return r

    def __or__(self, other):
        if not isinstance(other, (set, frozenset)):
            return NotImplemented
        return self.union(other)

    def __and__(self, other):
        if not isinstance(other, (set, frozenset)):
            return NotImplemented
        return self.intersection(other)

    def __sub__(self, other):
        if not isinstance(other, (set, frozenset)):
            return NotImplemented
        return self.difference(other)

    def __xor__(self, other):
        if not isinstance(other, (set, frozenset)):
            return NotImplemented
        return self.symmetric_difference(other)

    __ror__ = __or__
    __rand__ = __and__
    __rxor__ = __xor__

    def __reduce__(self):
        return (SimSet, (list(self._o),))

    def __deepcopy__(self, memo):
        from copy import deepcopy
        return SimSet(deepcopy(list(self._o), memo))

    # -- the seam -------------------------------------------------------------
    def __iter__(self):
        items = list(self._o)
        n = len(items)
        if n > 1 and CTX.active and CTX.set_rng is not None:
            pol = CTX.set_policy
            rng = CTX.set_rng
            if pol == "mixed":
                pol = rng.choice(("insertion", "reversed", "shuffled", "rotate"))
            if pol == "reversed":
                items.reverse()
            elif pol == "shuffled":
                rng.shuffle(items)
            elif pol == "rotate":
                k = rng.randrange(n)
                items = items[k:] + items[:k]
            CTX.counters["set_iter_permutable"] += 1
            if len(CTX.set_orders) < 4096:
                # order digest relative to insertion order (positions), so it
                # measures permutations, not element identity
                pos = {id(x): i for i, x in enumerate(self._o)}
                CTX.set_orders.add((n, tuple(pos[id(x)] for x in items)))
        return iter(items)

    def __repr__(self):
        return "SimSet(%r)" % (list(self._o),)


def inject_simset():
    """Give every loaded codelimit module a module-global `set` = SimSet."""
    n = 0
    for name, mod in list(sys.modules.items()):
        if mod is None:
            continue
        if name == "codelimit" or name.startswith("codelimit."):
            if getattr(mod, "set", None) is not SimSet:
                try:
                    mod.set = SimSet
                    n += 1
                except Exception:
                    pass
    return n


def remove_simset():
    for name, mod in list(sys.modules.items()):
        if mod is None:
            continue
        if name == "codelimit" or name.startswith("codelimit."):
            if getattr(mod, "set", None) is SimSet:
                try:
                    del mod.set
                except Exception:
                    pass


# ----------------------------------------------------------------------------
# S2: directory listing order
# ----------------------------------------------------------------------------
def sim_walk(top, topdown=True, onerror=None, followlinks=False):
    if not CTX.active or CTX.walk_rng is None:
        yield from REAL["os.walk"](top, topdown, onerror, followlinks)
        return
    for root, dirs, files in REAL["os.walk"](top, True, onerror, followlinks):
        dirs.sort()
        files.sort()
        pol = CTX.walk_policy
        rng = CTX.walk_rng
        if pol == "reversed":
            dirs.reverse()
            files.reverse()
        elif pol == "shuffled":
            # a permutation keyed by (process seed, directory, name): the relative order of two
            # entries does not depend on which other entries exist (e.g. the cache directory)
            salt = CTX.walk_salt
            here = os.path.relpath(os.fspath(root), os.fspath(top))   # independent of how the root is spelled

            def key(name):
                return hashlib.md5(("%s\0%s\0%s" % (salt, here, name)).encode("utf-8", "surrogateescape")).digest()
            dirs.sort(key=key)
            files.sort(key=key)
        if len(CTX.walk_orders) < 4096:
            CTX.walk_orders.add((tuple(dirs), tuple(files)))
        CTX.counters["walk_dirs"] += 1
        yield root, dirs, files  # same list objects: consumer may prune dirs[:]


# ----------------------------------------------------------------------------
# S6/S7: I/O fault layer
# ----------------------------------------------------------------------------
def _under_root(path) -> bool:
    if CTX.io_root is None or not CTX.active:
        return False
    try:
        p = os.fspath(path)
    except TypeError:
        return False
    if isinstance(p, bytes):
        p = os.fsdecode(p)
    p = os.path.abspath(p)
    return p == CTX.io_root or p.startswith(CTX.io_root + os.sep)


def _rel(path) -> str:
    p = os.path.abspath(os.fspath(path))
    if CTX.io_root and p.startswith(CTX.io_root):
        return p[len(CTX.io_root):].lstrip(os.sep) or "."
    return p


def _enospc():
    return OSError(errno.ENOSPC, "No space left on device (simulated)")


def _tick_event(desc, rel) -> bool:
    """Account one non-write mutating event.  Returns False if the event must
    be skipped silently (process already dead).  Raises for a fault."""
    if CTX.io_dead:
        return False
    if CTX.io_full and desc in ("mkdir", "create"):
        CTX.counters["enospc_followup"] += 1
        raise _enospc()
    plan = CTX.io_plan
    t = CTX.io_tick
    if plan is not None and CTX.io_fired is None and plan["tick"] == t:
        _fire(plan, desc, rel, 0)
    CTX.io_tick = t + 1
    if CTX.io_record:
        CTX.io_events.append({"ev": desc, "path": rel, "tick": t, "len": 1})
    return True


def _fire(plan, desc, rel, k):
    kind = plan["kind"]
    CTX.io_fired = {"kind": kind, "at": desc, "path": rel, "byte": k, "tick": plan["tick"]}
    CTX.counters["fault_fired_" + kind] += 1
    if kind == "crash":
        CTX.io_dead = True
        raise SimCrash("crash at tick %d (%s %s +%d)" % (plan["tick"], desc, rel, k))
    if kind == "enospc":
        CTX.io_full = True
        raise _enospc()
    if kind == "eio":
        raise OSError(errno.EIO, "Input/output error (simulated)")
    raise AssertionError("unknown fault kind %r" % kind)


class FaultRaw(io.FileIO):
    """Raw file whose writes are accounted byte by byte against the fault plan."""

    def __init__(self, path, mode, rel, closefd=True):
        super().__init__(path, mode, closefd=closefd)
        self._rel = rel

    def write(self, b):
        b = bytes(b)
        n = len(b)
        if n == 0:
            return 0
        if CTX.io_dead:
            return n  # swallowed: the process is dead, nothing reaches the disk
        if CTX.io_full:
            CTX.counters["enospc_followup"] += 1
            raise _enospc()
        plan = CTX.io_plan
        t0 = CTX.io_tick
        if plan is not None and CTX.io_fired is None and t0 <= plan["tick"] < t0 + n:
            k = plan["tick"] - t0
            if k:
                super().write(b[:k])
            CTX.io_tick = t0 + k
            if CTX.io_record:
                CTX.io_events.append({"ev": "write", "path": self._rel, "tick": t0, "len": k})
            _fire(plan, "write", self._rel, k)
        w = super().write(b)
        CTX.io_tick = t0 + n
        if CTX.io_record:
            CTX.io_events.append({"ev": "write", "path": self._rel, "tick": t0, "len": n})
        return w


def _is_write_mode(mode: str) -> bool:
    return any(c in mode for c in "wax+")


def sim_open(file, mode="r", buffering=-1, encoding=None, errors=None, newline=None,
             closefd=True, opener=None):
    if (isinstance(file, int) and file in _FD_PATHS and CTX.active and isinstance(mode, str)
            and _is_write_mode(mode) and opener is None):
        # os.fdopen / open(fd) on a descriptor obtained through sim_os_open
        rel = _FD_PATHS.pop(file) if closefd else _FD_PATHS[file]
        raw = FaultRaw(file, mode.replace("b", "").replace("t", ""), rel, closefd=closefd)
        if "b" in mode:
            return raw if buffering == 0 else io.BufferedWriter(raw)
        text = io.TextIOWrapper(io.BufferedWriter(raw), encoding=encoding, errors=errors, newline=newline)
        text.mode = mode
        return text
    if (CTX.active and CTX.read_plan is not None and isinstance(mode, str) and not _is_write_mode(mode)
            and not isinstance(file, int) and _under_root(file)):
        rel = _rel(file)
        if "/.codelimit_cache/" not in "/" + rel.replace(os.sep, "/") + "/" and os.path.isfile(os.fspath(file)):
            n = CTX.read_n
            CTX.read_n = n + 1
            if n == CTX.read_plan["n"] and CTX.io_fired is None:
                CTX.io_fired = {"kind": "eio_read", "at": "open_read", "path": rel, "byte": 0, "tick": n}
                CTX.counters["fault_fired_eio_read"] += 1
                raise OSError(errno.EIO, "Input/output error (simulated read fault)", os.fspath(file))
    if (isinstance(file, int) or opener is not None or not isinstance(mode, str)
            or not _is_write_mode(mode) or not _under_root(file)):
        return REAL["io.open"](file, mode, buffering, encoding, errors, newline, closefd, opener)
    rel = _rel(file)
    path = os.fspath(file)
    exists = os.path.exists(path)
    if CTX.io_dead:
        # dead process: pretend, but do not touch the disk
        return REAL["io.open"](os.devnull, "wb" if "b" in mode else "w")
    creating = not exists
    truncating = "w" in mode
    if "x" in mode and exists:
        raise FileExistsError(errno.EEXIST, "File exists", path)
    if creating:
        _tick_event("create", rel)
    elif truncating:
        _tick_event("truncate", rel)
    rawmode = mode.replace("b", "").replace("t", "")
    raw = FaultRaw(path, rawmode, rel)
    CTX.counters["open_for_write"] += 1
    if "b" in mode:
        if buffering == 0:
            return raw
        if "+" in mode:
            return io.BufferedRandom(raw)
        return io.BufferedWriter(raw)
    if "+" in mode:
        buf = io.BufferedRandom(raw)
    else:
        buf = io.BufferedWriter(raw)
    text = io.TextIOWrapper(buf, encoding=encoding, errors=errors, newline=newline)
    text.mode = mode
    return text


# -- os-level file I/O (os.open / os.write / os.fdopen, tempfile.mkstemp) ------------------
_FD_PATHS = {}      # fd opened for writing under the world root -> relative path


def sim_os_open(path, flags, mode=0o777, *, dir_fd=None):
    writing = flags & (os.O_WRONLY | os.O_RDWR | os.O_CREAT | os.O_TRUNC | os.O_APPEND)
    if dir_fd is not None or not writing or not _under_root(path):
        if dir_fd is not None:
            return REAL["os.open"](path, flags, mode, dir_fd=dir_fd)
        return REAL["os.open"](path, flags, mode)
    rel = _rel(path)
    if CTX.io_dead:
        return REAL["os.open"](os.devnull, os.O_WRONLY)
    exists = os.path.lexists(path)
    if not exists and (flags & os.O_CREAT):
        _tick_event("create", rel)
    elif exists and (flags & os.O_TRUNC):
        _tick_event("truncate", rel)
    fd = REAL["os.open"](path, flags, mode)
    _FD_PATHS[fd] = rel
    CTX.counters["open_for_write"] += 1
    return fd


def sim_os_write(fd, data):
    rel = _FD_PATHS.get(fd)
    if rel is None or not CTX.active:
        return REAL["os.write"](fd, data)
    b = bytes(data)
    n = len(b)
    if n == 0:
        return 0
    if CTX.io_dead:
        return n
    if CTX.io_full:
        CTX.counters["enospc_followup"] += 1
        raise _enospc()
    plan = CTX.io_plan
    t0 = CTX.io_tick
    if plan is not None and CTX.io_fired is None and t0 <= plan["tick"] < t0 + n:
        k = plan["tick"] - t0
        if k:
            REAL["os.write"](fd, b[:k])
        CTX.io_tick = t0 + k
        if CTX.io_record:
            CTX.io_events.append({"ev": "write", "path": rel, "tick": t0, "len": k})
        _fire(plan, "write", rel, k)
    w = REAL["os.write"](fd, b)
    CTX.io_tick = t0 + n
    if CTX.io_record:
        CTX.io_events.append({"ev": "write", "path": rel, "tick": t0, "len": n})
    return w


def sim_os_close(fd):
    _FD_PATHS.pop(fd, None)
    return REAL["os.close"](fd)


def sim_mkdir(path, mode=0o777, *, dir_fd=None):
    if dir_fd is not None or not _under_root(path):
        return REAL["os.mkdir"](path, mode) if dir_fd is None else REAL["os.mkdir"](path, mode, dir_fd=dir_fd)
    if os.path.lexists(path):
        raise FileExistsError(errno.EEXIST, "File exists", os.fspath(path))
    if not _tick_event("mkdir", _rel(path)):
        return None
    return REAL["os.mkdir"](path, mode)


def _two_path(name):
    real = REAL[name]

    def f(src, dst, *, src_dir_fd=None, dst_dir_fd=None):
        if src_dir_fd is not None or dst_dir_fd is not None or not (_under_root(src) or _under_root(dst)):
            return real(src, dst, src_dir_fd=src_dir_fd, dst_dir_fd=dst_dir_fd)
        if not _tick_event(name.split(".")[1], _rel(src) + " -> " + _rel(dst)):
            return None
        return real(src, dst)
    f.__name__ = name.split(".")[1]
    return f


def _one_path(name):
    real = REAL[name]

    def f(path, *, dir_fd=None):
        if dir_fd is not None or not _under_root(path):
            return real(path, dir_fd=dir_fd)
        if not _tick_event(name.split(".")[1], _rel(path)):
            return None
        return real(path)
    f.__name__ = name.split(".")[1]
    return f


sim_replace = _two_path("os.replace")
sim_rename = _two_path("os.rename")
sim_unlink = _one_path("os.unlink")
sim_remove = _one_path("os.remove")
sim_rmdir = _one_path("os.rmdir")


# ----------------------------------------------------------------------------
# S4 / S5: clock and uuid
# ----------------------------------------------------------------------------
class SimDateTime:
    """Stands in for the `datetime` class inside codelimit.common.report.Report."""

    @staticmethod
    def now(tz=None):
        CTX.counters["clock_reads"] += 1
        t = CTX.clock
        return t.astimezone(tz) if tz is not None else t.replace(tzinfo=None)

    @staticmethod
    def utcnow():
        CTX.counters["clock_reads"] += 1
        return CTX.clock.replace(tzinfo=None)

    def __getattr__(self, name):
        return getattr(datetime, name)


def sim_uuid4():
    import uuid
    CTX.uuid_n += 1
    CTX.counters["uuid_draws"] += 1
    h = hashlib.md5(("uuid/%d" % CTX.uuid_n).encode()).digest()
    return uuid.UUID(bytes=h, version=4)


def advance_clock(seconds: float):
    CTX.clock = CTX.clock + timedelta(seconds=seconds)


# ----------------------------------------------------------------------------
# S9: git peer
# ----------------------------------------------------------------------------
class _ErrorReturnCode(Exception):
    pass


class _CommandNotFound(Exception):
    pass


GIT_SCENARIOS = {
    # name: (branch, url) ; None => command fails ; "absent" => CommandNotFound
    "none": "absent",
    "not_a_repo": (None, None),
    "ssh": ("main", "git@github.com:acme/widget.git"),
    "https_git": ("feature/x", "https://github.com/acme/widget.git"),
    "https_plain": ("main", "https://github.com/acme/widget"),
    "detached": ("HEAD", "https://github.com/acme/widget.git"),
    "no_remote": ("main", None),
    "other_host": ("main", "https://gitlab.com/acme/widget.git"),
}


class SimSh:
    ErrorReturnCode = _ErrorReturnCode
    CommandNotFound = _CommandNotFound

    @staticmethod
    def git(*args, **kw):
        CTX.counters["git_calls"] += 1
        sc = GIT_SCENARIOS.get(CTX.git, "absent")
        if sc == "absent":
            raise _CommandNotFound("git")
        branch, url = sc
        if "rev-parse" in args:
            if branch is None:
                raise _ErrorReturnCode("not a git repository")
            return branch + "\n"
        if "config" in args:
            if url is None:
                raise _ErrorReturnCode("exit 1")
            return url + "\n"
        raise _ErrorReturnCode("unsupported git call %r" % (args,))


# ----------------------------------------------------------------------------
# S10: rich.live.Live (the program's only thread)
# ----------------------------------------------------------------------------
class SimLive:
    def __init__(self, *a, **kw):
        self._last = None

    def __enter__(self):
        return self

    def __exit__(self, *exc):
        return False

    def start(self, refresh=False):
        pass

    def stop(self):
        pass

    def update(self, renderable, *, refresh=False):
        self._last = renderable
        CTX.last_live = renderable
        CTX.counters["live_updates"] += 1
        # render synchronously (exercises the table code, never feeds back)
        from rich.console import Console
        Console(file=io.StringIO(), width=200, force_terminal=False).print(renderable)

    def refresh(self):
        if self._last is not None:
            from rich import get_console
            get_console().print(self._last)


# ----------------------------------------------------------------------------
# analysis recorder (which texts were really analysed): wraps the `lex` both
# analysis paths share
# ----------------------------------------------------------------------------
def make_lex_recorder(real_lex):
    def lex(lexer, code, *a, **kw):
        if CTX.active:
            CTX.analysed.append((type(lexer).__name__,
                                 hashlib.md5(code.encode("utf-8", "surrogatepass")).hexdigest()))
        return real_lex(lexer, code, *a, **kw)
    lex.__wrapped__ = real_lex
    return lex


# ----------------------------------------------------------------------------
# S3: process boundary - module-level mutable state
# ----------------------------------------------------------------------------
# A real CLI invocation is a new OS process: every module-level (and class-level)
# list / dict / set of codelimit starts from its import-time value.  The
# simulated process boundary restores exactly that, in place; library-mode ops
# (one long-lived process) do not.  Not restored, deliberately: State._id and
# other scalars, object identities, the heap.
_MODULE_STATE = []      # (container object, shallow snapshot, where)
_BINDINGS = []          # (owner, attribute, import-time scalar value, where)
_SCALARS = (type(None), bool, int, float, str, bytes, tuple, frozenset)
PRISTINE = {}


def snapshot_module_state():
    import inspect
    _MODULE_STATE.clear()
    _BINDINGS.clear()
    _CWD_BINDINGS.clear()
    _CACHED_FUNCS.clear()
    _INSTANCES.clear()
    import copy

    def consider_instance(obj, where):
        # an object of a codelimit class that lives as long as the process: its attributes are state too
        t = type(obj)
        if (getattr(t, "__module__", "") or "").startswith("codelimit") and hasattr(obj, "__dict__") \
                and not inspect.isclass(obj) and id(obj) not in seen:
            try:
                snap = copy.deepcopy(obj.__dict__)
            except Exception:  # noqa: BLE001
                return
            seen.add(id(obj))
            _INSTANCES.append((obj, snap, where))
    seen = REAL["set"]()

    def consider(obj, where, owner=None, attr=None):
        if type(obj) in (list, dict, REAL["set"]) and id(obj) not in seen:
            seen.add(id(obj))
            _MODULE_STATE.append((obj, obj.copy(), where))
        if owner is not None and IMPORT_CWD[0] is not None:
            import pathlib
            if isinstance(obj, pathlib.PurePath) and str(obj) == IMPORT_CWD[0]:
                _CWD_BINDINGS.append((owner, attr, "path"))
                return
            if isinstance(obj, str) and obj == IMPORT_CWD[0]:
                _CWD_BINDINGS.append((owner, attr, "str"))
                return
        if owner is not None and type(obj) in (list, dict, REAL["set"]) + _SCALARS:
            _BINDINGS.append((owner, attr, obj, where))
    def consider_defaults(fn, where):
        # mutable default arguments live as long as the process does
        for d in (fn.__defaults__ or ()) + tuple((fn.__kwdefaults__ or {}).values()):
            consider(d, where + "(default argument)")
            consider_instance(d, where + "(default argument)")

    for name, mod in sorted(sys.modules.items()):
        if mod is None or not (name == "codelimit" or name.startswith("codelimit.")):
            continue
        for attr, val in list(vars(mod).items()):
            if attr.startswith("__") or attr == "set":
                continue
            consider(val, "%s.%s" % (name, attr), mod, attr)
            consider_instance(val, "%s.%s" % (name, attr))
            if callable(getattr(val, "cache_clear", None)) and getattr(val, "__module__", "").startswith("codelimit"):
                _CACHED_FUNCS.append(val)
            if inspect.isfunction(val) and getattr(val, "__module__", None) == name:
                consider_defaults(val, "%s.%s" % (name, attr))
            if inspect.isclass(val) and getattr(val, "__module__", None) == name:
                for cattr, cval in list(vars(val).items()):
                    f = getattr(cval, "__func__", cval)
                    if callable(getattr(f, "cache_clear", None)):
                        _CACHED_FUNCS.append(f)
                    if inspect.isfunction(f):
                        consider_defaults(f, "%s.%s.%s" % (name, attr, cattr))
                    if not cattr.startswith("__") and not (cattr.startswith("_") and cattr.endswith("_")):
                        consider(cval, "%s.%s.%s" % (name, attr, cattr), val, cattr)
                        consider_instance(cval, "%s.%s.%s" % (name, attr, cattr))
    return len(_MODULE_STATE)


_CWD_BINDINGS = []      # (owner, attribute, kind): module / class attributes that hold the import-time working directory
IMPORT_CWD = [None]
_INSTANCES = []         # (object, deep copy of its __dict__, where): module-level singletons and default-argument objects
_CACHED_FUNCS = []      # functools caches (lru_cache / cache) on codelimit functions: process-lifetime state too


def restore_module_state(cwd=None):
    n = 0
    # a real process imports codelimit in the directory it is run from: a constant captured from
    # os.getcwd() / Path.cwd() at import time equals that directory, not the harness's
    if cwd is not None:
        import pathlib
        for owner, attr, kind in _CWD_BINDINGS:
            try:
                setattr(owner, attr, pathlib.Path(cwd) if kind == "path" else str(cwd))
            except (AttributeError, TypeError):
                pass
    for f in _CACHED_FUNCS:
        try:
            f.cache_clear()
        except Exception:  # noqa: BLE001
            pass
    import copy
    for obj, snap, where in _INSTANCES:
        try:
            if obj.__dict__ != snap:
                CTX.counters["module_instance_restored"] += 1
                if len(CTX.module_state_dirty) < 16:
                    CTX.module_state_dirty.add(where)
            obj.__dict__.clear()
            obj.__dict__.update(copy.deepcopy(snap))
        except Exception:  # noqa: BLE001
            pass
    for obj, snap, where in _MODULE_STATE:
        if obj != snap:
            n += 1
            CTX.counters["module_state_restored"] += 1
            if len(CTX.module_state_dirty) < 16:
                CTX.module_state_dirty.add(where)
        if type(obj) is list:
            obj[:] = snap
        else:
            obj.clear()
            obj.update(snap)
    for owner, attr, val, where in _BINDINGS:
        try:
            cur = vars(owner).get(attr, _BINDINGS)
        except TypeError:
            continue
        if cur is not val and not (type(val) in _SCALARS and type(cur) is type(val) and cur == val):
            try:
                setattr(owner, attr, val)
                n += 1
                CTX.counters["module_binding_restored"] += 1
                if len(CTX.module_state_dirty) < 16:
                    CTX.module_state_dirty.add(where)
            except (AttributeError, TypeError):
                pass
    return n


# ----------------------------------------------------------------------------
# install
# ----------------------------------------------------------------------------
_INSTALLED = {}


def install(simset=True):
    """Install all seams.  Idempotent.  Returns a dict of what is available."""
    if _INSTALLED:
        return _INSTALLED
    os.environ["COLUMNS"] = "80"      # what rich assumes when stdout is not a terminal
    os.environ["LC_ALL"] = "C.UTF-8"
    os.environ["LANG"] = "C.UTF-8"
    os.environ.pop("GITHUB_REF", None)
    os.environ.pop("GITHUB_HEAD_REF", None)
    IMPORT_CWD[0] = os.getcwd()
    import codelimit.__main__  # noqa: F401  loads every module the CLI uses
    import codelimit.common.Scanner as Scanner
    import codelimit.common.report.Report as ReportMod
    import codelimit.common.utils as cutils
    import codelimit.commands.check as checkmod

    avail = {}
    os.walk = sim_walk
    io.open = sim_open
    builtins.open = sim_open
    os.mkdir = sim_mkdir
    os.open = sim_os_open
    os.write = sim_os_write
    os.close = sim_os_close
    os.replace = sim_replace
    os.rename = sim_rename
    os.unlink = sim_unlink
    os.remove = sim_remove
    os.rmdir = sim_rmdir
    avail["walk"] = avail["io"] = True

    avail["clock"] = hasattr(ReportMod, "datetime")
    if avail["clock"]:
        ReportMod.datetime = SimDateTime()
    avail["uuid"] = hasattr(ReportMod, "uuid4")
    if avail["uuid"]:
        ReportMod.uuid4 = sim_uuid4
    avail["git"] = hasattr(cutils, "sh")
    if avail["git"]:
        cutils.sh = SimSh
    avail["live"] = hasattr(Scanner, "Live")
    if avail["live"]:
        Scanner.Live = SimLive
    # analysis recorder
    avail["lex_recorder"] = False
    if hasattr(Scanner, "lex"):
        rec = make_lex_recorder(Scanner.lex)
        Scanner.lex = rec
        avail["lex_recorder"] = True
        if hasattr(checkmod, "lex"):
            checkmod.lex = rec
    avail["path_recorder"] = False
    if hasattr(Scanner, "_analyze_file"):
        real_af = Scanner._analyze_file

        def _analyze_file(*a, **k):
            if CTX.active:
                rel = a[1] if len(a) > 1 else k.get("rel_path")
                CTX.analysed_paths.append(str(rel))
            return real_af(*a, **k)
        _analyze_file.__wrapped__ = real_af
        Scanner._analyze_file = _analyze_file
        avail["path_recorder"] = True
    avail["simset"] = False
    if simset:
        avail["simset"] = inject_simset() > 0
    avail["module_state_containers"] = snapshot_module_state()
    PRISTINE["DEFAULT_EXCLUDES"] = list(getattr(Scanner, "DEFAULT_EXCLUDES", []))
    _INSTALLED.update(avail)
    return _INSTALLED
