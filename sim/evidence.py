"""Evidence writer: what a run actually covered (EVIDENCE.schema.json)."""
from __future__ import annotations

import json
import os

LEVEL = {"C03": "fault_enumeration", "C06": "exploration", "C07": "exploration", "C09": "exploration",
         "C10": "fault_enumeration", "C11": "exploration", "C12": "exploration"}

RULE = {
    "C03": "cases: (a) analysis-level sweeps = every byte offset (small corpus files) or token boundary +-1 / PRNG offsets (larger) of torn_prefix / lost_head, every line for lost/dup/swap, flip/zero/re-encode faults, each analysed by lex+scan_file under the step budget; (b) full worlds = a faulted file among healthy neighbours, then CLI scan + check by file / directory / absolute path / from outside the tree. A case is non-trivial if a storage fault changed the file's bytes and at least one simulated process ran; distinct = distinct normalised event-log digest (sweeps: distinct faulted byte strings).",
    "C06": "cases: seeded runs; library mode = 20-60 analyses of corpus texts (with repetitions, malformed predecessors) + in-process tree scans in one long-lived process; process mode = CLI scans repeated from scratch under another schedule. Non-trivial = at least one process op and at least one SimSet iteration with >1 element or one permuted directory listing; distinct = distinct normalised event-log digest.",
    "C07": "cases: every report produced in C09 edit histories, C11 worlds, C06 process-mode scans and C07 deep-tree worlds (written report and the same report re-read by ReportReader and re-written). Non-trivial = the run produced at least one report under a permuted insertion order; distinct = distinct event-log digest.",
    "C09": "cases: seeded edit/scan histories (4-25 ops: write, delete, rename, swap, touch, exclusion changes, cache identity edits, version change, cache faults, clock jumps, scan, report, findings; thorough tier additionally enumerates all histories of length <= 3 over a 3-path x 3-content universe). Non-trivial = at least one scan that read an existing cache; distinct = distinct event-log digest.",
    "C10": "cases: (a) crash sweeps = for a world and a scan, every mutation tick of the cache write (exhaustive for small reports / every 8th + structural boundaries in quick) x {crash, enospc, eio} x {no cache yet, older valid cache}; (b) structural faults: every kind-changing JSON-path mutation and key deletion, whole-file replacements, marker/file/dir deletions; (c) random fault sequences interleaved with edits and scans. Non-trivial = a fault fired / a cache fault was applied; distinct = distinct (fault, post-fault durable state) digest.",
    "C11": "cases: seeded worlds (tree over the path universe x exclusion lists from the 5 pattern classes via yml / --exclude / .gitignore x root spelling x listing order) + C09 histories with model-class patterns. Non-trivial = world contains at least one qualifying and one non-qualifying file; distinct = distinct event-log digest.",
    "C12": "cases: seeded worlds biased to long functions and non-UTF-8 contents; after a CLI scan, check by relative file, parent directory, '.', absolute root, with/without --quiet. Non-trivial = at least one check compared against a scan with findings > 30 lines; distinct = distinct event-log digest.",
}


def write(here, check, tier, vseed, agg, wall, n_viol, hashseeds, seams_seen, known_seen, harness_errors, done_runs):
    os.makedirs(os.path.join(here, "evidence"), exist_ok=True)
    faults = {k: v for k, v in sorted(agg.counters.items())
              if k.startswith(("fault_fired_", "cache_", "corrupt_", "enospc_"))}
    real = ["codelimit (all modules: CLI functions scan/check/report/findings, Scanner, gsm engine, languages, "
            "ReportReader/Writer, Codebase)", "pygments", "pathspec", "PyYAML", "rich rendering (into a StringIO)",
            "kernel file system (tmpfs) for all reads, stats and non-faulted writes"]
    stub = ["set -> SimSet in every codelimit module (iteration order from PRNG)" if seams_seen.get("simset") else "SimSet NOT installed",
            "os.walk -> permuting wrapper around the real os.walk",
            "io.open/builtins.open/os.mkdir/os.replace/os.rename/os.unlink for writes under the world root -> fault layer (crash, ENOSPC, EIO at a mutation tick)",
            "Report.datetime -> SimClock" if seams_seen.get("clock") else "clock seam unavailable",
            "Report.uuid4 -> counter-based SimUUID" if seams_seen.get("uuid") else "uuid seam unavailable",
            "codelimit.common.utils.sh -> SimGit scenarios" if seams_seen.get("git") else "git seam unavailable",
            "Scanner.Live -> SimLive (no refresh thread)" if seams_seen.get("live") else "Live seam unavailable",
            "process boundary -> SimProcess reset of Configuration / logging handlers / cwd / env"]
    plan_cases = None
    if check == "C10":
        from .props import c10
        plan_cases = len(c10.plan(tier))
    elif check == "C03":
        from .props import c03
        plan_cases = 2 * len(c03.sweep_plan(tier))
    cov = {
        "evaluations": int(done_runs + agg.subcases),
        "runs": int(done_runs),
        "enumerated_subcases": int(agg.subcases),
        "distinct_nontrivial": len(agg.nontrivial),
        "rule": RULE[check],
        "samples": agg.samples[:3],
        "exhaustive": False,
        "enumerated_plan": None if plan_cases is None else {
            "cases_in_plan": plan_cases, "cases_done": int(min(done_runs, plan_cases)),
            "complete": bool(done_runs >= plan_cases),
            "note": "the enumerated part of this check's case list (sweep slices); thorough tier = every byte / tick / JSON path of the listed worlds and texts, quick tier = the stated strata"},
        "seeds": {"verif_seed": vseed, "first_run_seed": vseed * (1 << 24), "count": int(done_runs)},
        "hashseeds": hashseeds[:64],
        "n_hashseeds": len(hashseeds),
        "runs_per_hour": round(done_runs / wall * 3600) if wall > 0 else 0,
        "sim_time_s": round(agg.sim_seconds, 1),
        "steps_py_start_events": agg.steps,
        "ops_executed": agg.ops,
        "process_ops": agg.proc_ops,
        "process_outcomes": {k[5:]: v for k, v in sorted(agg.counters.items()) if k.startswith("proc_")},
        "reports_monitored": agg.reports,
        "faults_fired": faults,
        "probes": dict(sorted(agg.probes.items())),
        "states": len(agg.states),
        "transitions": len(agg.transitions),
        "state_measure": "abstract state = (digest of {path: content}, CLI excludes, cache class in {none, valid, torn, empty, wrong_shape, dir_only}x{markers}, root spelling); transition = (state, process op kind, state)",
        "distinct_walk_orders": len(agg.walk_orders),
        "distinct_set_orders": len(agg.set_orders),
        "seam_counters": {k: v for k, v in sorted(agg.counters.items())
                          if k in ("set_iter_permutable", "walk_dirs", "clock_reads", "uuid_draws", "git_calls",
                                   "live_updates", "open_for_write", "reference_scans")},
        "components": {"real": real, "stub": stub},
        "known_findings_seen": {k: n for k, (f, n) in known_seen.items()},
        "violations_tagged_for_other_properties": agg.other_tags,
        "harness_errors": harness_errors[:5],
    }
    ev = {
        "property_id": check,
        "tier": tier,
        "seed": int(vseed),
        "level": LEVEL[check],
        "coverage": cov,
        "assumptions": [
            "sampling, not proof: a clean batch is evidence only for the histories / fault points explored",
            "the process boundary is modelled in-process (validated against real subprocesses by `run.py selftest conformance`)",
            "Pygments' filename -> lexer mapping and tmpfs semantics are trusted",
            "crash model: process death / ENOSPC / EIO with writes durable in program order",
        ],
        "wall_s": round(wall, 2),
        "violations": int(n_viol),
    }
    path = os.path.join(here, "evidence", "%s.json" % check)
    tmp = path + ".tmp"
    with open(tmp, "w") as f:
        json.dump(ev, f, indent=1, default=str)
    os.replace(tmp, path)
    return path
