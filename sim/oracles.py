"""Oracles that are pure functions of observations (reports, outputs, worlds)."""
from __future__ import annotations

import copy
import hashlib
import json
import os
import re

from .corpus import LEXER_NAME


# ----------------------------------------------------------------------------
# report normalisation (DESIGN 3.4)
# ----------------------------------------------------------------------------
def norm_report(d, root=None):
    """Drop uuid and timestamp, replace the root, sort folder entries.  `files`
    and `totals` are JSON objects: their member order is not significant and
    dict equality ignores it.  Nothing else is normalised."""
    if not isinstance(d, dict):
        return d
    d = copy.deepcopy(d)
    d.pop("uuid", None)
    d.pop("timestamp", None)
    if root is not None and d.get("root") == root:
        d["root"] = "<ROOT>"
    try:
        for folder in d["codebase"]["tree"].values():
            folder["entries"] = sorted(folder["entries"], key=str)
    except (KeyError, TypeError, AttributeError):
        pass
    return d


def ordered_view(d):
    """The orders a report carries: folder entries as listed, and the key order of files,
    totals and tree (what a reader of the JSON text sees top to bottom)."""
    try:
        cb = d["codebase"]
        return {"files": list(cb["files"]), "totals": list(cb["totals"]), "tree": list(cb["tree"]),
                "entries": {k: list(v["entries"]) for k, v in cb["tree"].items()}}
    except (KeyError, TypeError, AttributeError):
        return None


def diff_reports(a, b, limit=6):
    """Human-readable first differences between two normalised reports."""
    out = []

    def rec(x, y, path):
        if len(out) >= limit:
            return
        if type(x) is not type(y):
            out.append("%s: %r != %r" % (path, _short(x), _short(y)))
        elif isinstance(x, dict):
            for k in sorted(set(x) | set(y), key=str):
                if k not in x:
                    out.append("%s/%s: missing on left, right=%s" % (path, k, _short(y[k])))
                elif k not in y:
                    out.append("%s/%s: missing on right, left=%s" % (path, k, _short(x[k])))
                else:
                    rec(x[k], y[k], "%s/%s" % (path, k))
        elif isinstance(x, list):
            if len(x) != len(y):
                out.append("%s: list length %d != %d" % (path, len(x), len(y)))
            for i, (p, q) in enumerate(zip(x, y)):
                rec(p, q, "%s[%d]" % (path, i))
        elif x != y:
            out.append("%s: %r != %r" % (path, _short(x), _short(y)))
    rec(a, b, "")
    return out


def _short(v):
    s = json.dumps(v, sort_keys=True, default=str)
    return s if len(s) < 90 else s[:87] + "..."


def digest(obj) -> str:
    return hashlib.sha1(json.dumps(obj, sort_keys=True, default=str).encode()).hexdigest()[:16]


# ----------------------------------------------------------------------------
# C07: conservation monitor
# ----------------------------------------------------------------------------
def _cat(v):
    return 0 if v <= 15 else 1 if v <= 30 else 2 if v <= 60 else 3


def conservation(d):
    """Check totals / profiles / folder tree against the `files` section alone.
    Returns a list of problem strings (empty = holds)."""
    try:
        return _conservation(d)
    except (KeyError, TypeError, AttributeError, ValueError, IndexError) as e:
        return ["report structure is malformed (%s: %s)" % (type(e).__name__, e)]


def _conservation(d):
    probs = []
    try:
        cb = d["codebase"]
        files, tree, totals = cb["files"], cb["tree"], cb["totals"]
    except (KeyError, TypeError):
        return ["report lacks codebase/files/tree/totals"]
    # per file
    fprof = {}
    per_lang = {}
    for path, e in files.items():
        vals = [m["value"] for m in e["measurements"]]
        prof = [0, 0, 0, 0]
        for v in vals:
            prof[_cat(v)] += v
        fprof[path] = prof
        if e["profile"] != prof:
            probs.append("file %s: profile %s != recomputed %s" % (path, e["profile"], prof))
        if sum(e["profile"]) != e["loc"]:
            probs.append("file %s: sum(profile) %d != loc %d" % (path, sum(e["profile"]), e["loc"]))
        t = per_lang.setdefault(e["language"], {"files": 0, "lines_of_code": 0, "functions": 0,
                                                "hard_to_maintain": 0, "unmaintainable": 0})
        t["files"] += 1
        t["lines_of_code"] += e["loc"]
        t["functions"] += len(vals)
        t["hard_to_maintain"] += sum(1 for v in vals if 30 < v <= 60)
        t["unmaintainable"] += sum(1 for v in vals if v > 60)
    if totals != per_lang:
        probs.append("totals %s != recomputed %s" % (_short(totals), _short(per_lang)))
    # tree
    if "./" not in tree:
        probs.append("tree lacks root folder './'")
        return probs
    want_folders = {"./"}
    for path in files:
        parts = path.split("/")
        for i in range(1, len(parts)):
            want_folders.add("/".join(parts[:i]) + "/")
    if set(tree) != want_folders:
        probs.append("tree folders %s != expected %s" % (sorted(tree), sorted(want_folders)))
    for folder in want_folders & set(tree):
        prefix = "" if folder == "./" else folder
        want_entries = []
        for path in files:
            if path.startswith(prefix) and "/" not in path[len(prefix):]:
                want_entries.append(path[len(prefix):])
        for sub in want_folders:
            if sub != "./" and sub != folder and sub.startswith(prefix) and "/" not in sub[len(prefix):-1]:
                want_entries.append(sub[len(prefix):])
        got = tree[folder]["entries"]
        if sorted(got) != sorted(want_entries):
            probs.append("folder %s: entries %s != expected %s" % (folder, sorted(got), sorted(want_entries)))
        want_prof = [0, 0, 0, 0]
        for path, prof in fprof.items():
            if path.startswith(prefix):
                want_prof = [x + y for x, y in zip(want_prof, prof)]
        if tree[folder]["profile"] != want_prof:
            probs.append("folder %s: profile %s != sum of files beneath %s" % (folder, tree[folder]["profile"], want_prof))
    return probs


# ----------------------------------------------------------------------------
# C11: reference model of which files qualify
# ----------------------------------------------------------------------------
SUPPORTED = set(LEXER_NAME.values())


def _match_one(pattern: str, rel: str) -> bool:
    """The five unambiguous gitignore classes.  rel is a root-relative POSIX
    file path.  A pattern that excludes a directory excludes all beneath it."""
    parts = rel.split("/")
    dirs = parts[:-1]
    pat = pattern
    if not pat or pat.startswith("#"):
        return False
    dir_only = pat.endswith("/")
    if dir_only:
        pat = pat[:-1]
    if pat.startswith("/"):
        pat = pat[1:]
        anchored = True
    else:
        anchored = "/" in pat
    import fnmatch

    def seg_match(p, s):
        return fnmatch.fnmatchcase(s, p)
    if not anchored:
        # bare name or *.ext: matches any path component (dir_only: directories only)
        cands = dirs if dir_only else parts
        return any(seg_match(pat, c) for c in cands)
    psegs = pat.split("/")
    # anchored at root: pattern segments must match the first len(psegs) components
    if len(parts) < len(psegs):
        return False
    if not all(seg_match(p, s) for p, s in zip(psegs, parts)):
        return False
    if len(parts) == len(psegs):
        # the match is the file itself
        if dir_only:
            return False
        return True
    return True  # matched a directory prefix => everything beneath


def model_pattern_class(pattern: str):
    """Which of the five classes a pattern belongs to (None = outside the model)."""
    if re.fullmatch(r"[A-Za-z0-9_.\-]+", pattern):
        return "name"
    if re.fullmatch(r"[A-Za-z0-9_.\-]+/", pattern):
        return "dir/"
    if re.fullmatch(r"\*\.[A-Za-z0-9_]+", pattern):
        return "*.ext"
    if re.fullmatch(r"[A-Za-z0-9_.\-]+(/[A-Za-z0-9_.\-]+)+", pattern):
        return "a/b"
    if re.fullmatch(r"[A-Za-z0-9_.\-]+(/[A-Za-z0-9_.\-]+)*/\*", pattern):
        return "a/*"
    if re.fullmatch(r"/[A-Za-z0-9_.\-]+(/[A-Za-z0-9_.\-]+)*", pattern):
        return "/a"          # explicitly root-anchored name or path
    return None


def model_language(name: str):
    """Pygments is the trusted definition of 'its name maps to a supported
    language'."""
    from pygments.lexers import get_lexer_for_filename
    from pygments.util import ClassNotFound
    try:
        lx = get_lexer_for_filename(name)
    except ClassNotFound:
        return None
    n = lx.__class__.name
    return n if n in SUPPORTED else None


def model_qualifies(rel: str, patterns) -> bool:
    parts = rel.split("/")
    if any(p.startswith(".") for p in parts):
        return False
    for pat in patterns:
        if _match_one(pat, rel):
            return False
    return model_language(parts[-1]) is not None


# ----------------------------------------------------------------------------
# C12: parse check output
# ----------------------------------------------------------------------------
_LINE = re.compile(r"^(?P<path>.*):(?P<line>\d+):(?P<col>\d+): (?P<len>\d+) (?P<sym>\S) (?P<name>.*)$")
_SUMMARY = re.compile(r"^(?P<n>\d+) files checked, ")


def parse_check_output(text: str):
    """-> (findings list of (path, line, col, length, name), n_files or None, unparsed lines)"""
    finds, n, rest = [], None, []
    for line in text.splitlines():
        if not line.strip():
            continue
        m = _SUMMARY.match(line)
        if m:
            n = int(m.group("n"))
            continue
        m = _LINE.match(line)
        if m:
            finds.append((m.group("path"), int(m.group("line")), int(m.group("col")),
                          int(m.group("len")), m.group("name")))
        else:
            rest.append(line)
    return finds, n, rest


def md5_file(path):
    from .world import read_bytes
    return hashlib.md5(read_bytes(path)).hexdigest()


CHECKSUM_ALGOS = ("md5", "sha1", "sha256", "sha512", "blake2b")


def checksums_of(b: bytes):
    """The statement says 'the checksum of its bytes' without naming the
    function: any standard digest of exactly the file's bytes is accepted."""
    return {hashlib.new(a, b).hexdigest() for a in CHECKSUM_ALGOS}
