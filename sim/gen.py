"""Shared generator vocabulary: path universe, content choice, nonces."""
from __future__ import annotations

from .corpus import BY_LANG, CONTENTS, EXT, LANGS

DIRS = ["", "", "src", "src", "src/deep/er", "lib", "x/y/z", "pkg", "pkg/sub", "src/a.py",
        "a_rather_long_directory_name/with_another_long_component/and_a_third_one"]
STEMS = ["a", "b", "c", "d", "K", "m", "w", "main"]
HIDDEN = [".h.py", ".hid/x.py", "src/.hid/x.py", "src/.h.js", ".hid/deep/y.ts", ".ci/build.py", ".tools/t.js", ".github/a.ts",
          "src/.ci/c.cs"]
EXCLUDED = ["tests/t.py", "build/x.py", "node_modules/p/i.js", "src/test/t.py", "venv/lib/v.py", "dist/d.js",
            "src/tests/deep/t.java", "lib/build/b.c"]
UNSUPPORTED = ["notes.txt", "README", "Makefile", "a.PY", "a.py.bak", "data.json", "src/style.css", "lib/x.h.in"]
ODD_SUPPORTED = ["SConstruct", "src/SConscript"]       # Pygments maps these names to Python
WEIRD = ['we"ird.py', "back\\slash.py", "café.py", "sp ace.js", "src/qu'ote.ts", "-dash.py", "files.py", "tree/files.js",
         "codebase/totals.c", "a b/c d.py", "ünï/cödé.ts", "x" * 120 + ".py", "src/profile/entries.java", "root.cs", "..py", "a..b.js",
         "src/[brackets].py", "pages/users/[id].ts", "gen[/v2].py", "50%.c", "dollar$.ts", "semi;colon.py",
         "cafe\u0301.py", "src/nai\u0308ve/u\u0308ber.js",      # decomposed (NFD) spellings, next to NFC café.py
         "caf\udce9.py", "caf\udce8.py"]                         # two names that differ only in a non-UTF-8 byte                                          # a name that is not valid UTF-8 (byte E9)
DISTRACTOR_DIRS = ["src", "lib", "pkg", "x/y"]

GOOD_SHAPES = ("one2", "one15", "one16", "one30", "one31", "one60", "one61", "one75", "multi", "multi2",
               "strings", "nested", "mlhdr", "nonl", "enc_utf8", "multi_ws", "comments", "empty", "ws", "uni", "nocl")
LONG_SHAPES = ("one31", "one60", "one61", "one75", "multi", "multi2", "nested", "enc_utf8", "enc_latin1", "enc_crlf",
               "bare31", "bare61", "uni", "nocl", "twins", "enc_cr", "enc_mixed", "bombare")
BAD_SHAPES = ("unbal", "half", "closers", "enc_latin1", "enc_utf16", "enc_bom", "enc_crlf", "enc_cr", "enc_mixed")


# other file names Pygments maps to the same seven lexers
ALT_EXT = {"py": [".pyw", ".pyi", ".bzl"], "js": [".mjs", ".cjs", ".jsm"], "c": [".h", ".h", ".idc", ".xpm", ".xbm"],
           "cpp": [".hpp", ".cc", ".hh", ".cxx", ".C", ".H", ".ipp"], "ts": [], "java": [], "cs": []}


def lang_of_path(path: str):
    for l, e in EXT.items():
        if path.endswith(e):
            return l
    for l, exts in ALT_EXT.items():
        if any(path.endswith(e) for e in exts):
            return l
    return None


HEAVY = {i for i, c in CONTENTS.items() if c.get("steps") or c.get("slow")}    # 0.7 s to seconds per analysis: used sparingly


def ids_for(lang, shapes=None):
    ids = [i for i in BY_LANG[lang] if i not in HEAVY]
    if shapes is None:
        return ids
    out = [i for i in ids if i.split(".", 1)[1] in shapes]
    return out or ids


def pick_content(rng, lang, p_bad=0.15, long_bias=0.0):
    r = rng.random()
    if r < p_bad:
        return rng.choice(ids_for(lang, BAD_SHAPES))
    if r < p_bad + long_bias:
        return rng.choice(ids_for(lang, LONG_SHAPES))
    return rng.choice(ids_for(lang, None))


def new_path(rng, lang=None, dirs=DIRS):
    lang = lang or rng.choice(LANGS)
    d = rng.choice(dirs)
    stem = rng.choice(STEMS)
    ext = EXT[lang]
    if ALT_EXT.get(lang) and rng.random() < 0.2:
        ext = rng.choice(ALT_EXT[lang])
    return (d + "/" if d else "") + stem + ext


def nonce(rng):
    return rng.getrandbits(40)


def base_tree(rng, n_lo=3, n_hi=9, p_bad=0.15, long_bias=0.0, weird=0.0, extras=0.5, links=0.15):
    """Initial write ops for a tree; returns (ops, {path: content_id})."""
    ops, placed = [], {}
    for _ in range(rng.randint(n_lo, n_hi)):
        lang = rng.choice(LANGS)
        p = new_path(rng, lang)
        if any(q == p or q.startswith(p + "/") or p.startswith(q + "/") for q in placed):
            continue
        placed[p] = pick_content(rng, lang, p_bad, long_bias)
    if rng.random() < extras:
        extra_pool = HIDDEN + EXCLUDED + UNSUPPORTED + ODD_SUPPORTED
        chosen = rng.sample(extra_pool, rng.randint(1, 6))
        if rng.random() < 0.3:
            # several hidden / excluded directories side by side in one listing
            chosen += [".hid/x.py", ".ci/build.py", ".tools/t.js", ".github/a.ts", "build/x.py", "dist/d.js"]
        for p in dict.fromkeys(chosen):
            lang = lang_of_path(p) or "py"
            if any(q == p or q.startswith(p + "/") or p.startswith(q + "/") for q in placed):
                continue
            placed[p] = pick_content(rng, lang, 0.0, 0.5)
    if rng.random() < weird:
        for p in rng.sample(WEIRD, rng.randint(1, 2)):
            placed[p] = pick_content(rng, lang_of_path(p) or "py", 0.0, 0.3)
        if rng.random() < 0.4:
            # canonically equivalent spellings (composed / decomposed) side by side
            placed["café.py"] = pick_content(rng, "py", 0.0, 0.3)
            placed["cafe\u0301.py"] = pick_content(rng, "py", 0.0, 0.3)
    if placed and rng.random() < 0.3:
        # the same bytes under another language's extension (e.g. a C text as .cpp / .cs / .java):
        # per-content (rather than per-path-and-language) handling becomes visible
        src = rng.choice(sorted(placed))
        lang = lang_of_path(src)
        if lang:
            other = rng.choice([l for l in LANGS if l != lang])
            twin = new_path(rng, other)
            if not any(q == twin or q.startswith(twin + "/") or twin.startswith(q + "/") for q in placed):
                placed[twin] = placed[src]
    if placed and rng.random() < 0.2:
        # a byte-identical copy of a file next to it (same folder, same language)
        src = rng.choice(sorted(placed))
        d, _, b = src.rpartition("/")
        dup = (d + "/" if d else "") + "copy_of_" + b
        if dup not in placed:
            placed[dup] = placed[src]
    for p, c in placed.items():
        ops.append({"op": "write", "path": p, "content": c})
    if placed and rng.random() < links:
        # a second name for one of the files: a symlink or a hard link, same or other language's name
        src = rng.choice(sorted(placed))
        lang = lang_of_path(src) or "py"
        dst = new_path(rng, lang if rng.random() < 0.7 else rng.choice(LANGS))
        if dst not in placed and not any(q.startswith(dst + "/") or dst.startswith(q + "/") for q in placed):
            ops.append({"op": "link", "src": src, "dst": dst, "hard": rng.random() < 0.5})
    return ops, placed
