"""Runs one codelimit CLI function in a real, separate process (no seams, builtin
set, real Live thread, real git lookup).  Used by `selftest conformance`.

Why not `python -m codelimit ...`: the sandbox pairs typer 0.9.4 with click
8.5.0, which mis-parses the CLI (boolean flags inverted, list options rejected,
usage errors crash in make_metavar), so the argument parser is bypassed exactly
as the simulator bypasses it; everything after parsing is the real thing.
"""
import json
import sys
from pathlib import Path


def main():
    job = json.loads(sys.argv[1])
    if job.get("fault"):
        # real process death at a mutation tick: only the I/O accounting layer of the
        # simulator is loaded (no SimSet, no clock/uuid/git/Live stubs); when the tick is
        # reached the process dies with os._exit, so nothing buffered is flushed and no
        # finally / with-exit code runs
        import builtins, io, os
        sys.path.insert(0, os.path.dirname(os.path.dirname(os.path.abspath(__file__))))
        from sim import seams
        io.open = seams.sim_open
        builtins.open = seams.sim_open
        os.mkdir = seams.sim_mkdir
        os.replace = seams.sim_replace
        os.rename = seams.sim_rename
        os.unlink = seams.sim_unlink
        os.remove = seams.sim_remove
        seams.CTX.active = True
        seams.CTX.io_root = job["io_root"]
        seams.CTX.io_plan = dict(job["fault"], kind="crash")
        _crash = seams.SimCrash
    else:
        _crash = ()
    import click
    import codelimit.__main__ as cli
    from codelimit.common.report.ReportFormat import ReportFormat
    try:
        if job["cmd"] == "scan":
            cli.scan(path=Path(job["path"]), exclude=job.get("exclude") or None, verbose=job.get("verbose", False))
        elif job["cmd"] == "check":
            cli.check(paths=[Path(p) for p in job["paths"]], exclude=job.get("exclude") or None,
                      quiet=job.get("quiet", False), verbose=False)
        elif job["cmd"] == "report":
            cli.report(path=Path(job["path"]), diff=None, fmt=ReportFormat(job.get("fmt", "text")))
        elif job["cmd"] == "findings":
            cli.findings(path=Path(job["path"]), full=job.get("full", False), fmt=ReportFormat(job.get("fmt", "text")))
    except click.exceptions.Exit as e:
        sys.exit(e.exit_code)
    except _crash:
        import os
        os._exit(137)


if __name__ == "__main__":
    main()
