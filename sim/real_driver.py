"""Runs one codelimit CLI function in a real, separate process (no seams, builtin
set, real Live thread, real git lookup).  Used by `selftest conformance`.

Why not `python -m codelimit ...`: the sandbox pairs typer 0.9.4 with click
8.5.0, which mis-parses the CLI (boolean flags inverted, list options rejected,
usage errors crash in make_metavar), so the argument parser is bypassed exactly
as the simulator bypasses it; everything after parsing is the real thing.
"""
import json
import sys
from pathlib import Path


def main():
    job = json.loads(sys.argv[1])
    import click
    import codelimit.__main__ as cli
    from codelimit.common.report.ReportFormat import ReportFormat
    try:
        if job["cmd"] == "scan":
            cli.scan(path=Path(job["path"]), exclude=job.get("exclude") or None, verbose=job.get("verbose", False))
        elif job["cmd"] == "check":
            cli.check(paths=[Path(p) for p in job["paths"]], exclude=job.get("exclude") or None,
                      quiet=job.get("quiet", False), verbose=False)
        elif job["cmd"] == "report":
            cli.report(path=Path(job["path"]), diff=None, fmt=ReportFormat(job.get("fmt", "text")))
        elif job["cmd"] == "findings":
            cli.findings(path=Path(job["path"]), full=job.get("full", False), fmt=ReportFormat(job.get("fmt", "text")))
    except click.exceptions.Exit as e:
        sys.exit(e.exit_code)


if __name__ == "__main__":
    main()
