"""worldsim: deterministic simulation with fault injection for codelimit.

See /verif/DESIGN.md.  Nothing in this package reads a real clock or an
unseeded PRNG on a path that influences a run.
"""
