"""Delta-debugging minimiser for op lists.  A candidate is kept only while the
same violation signature (property, oracle, outcome class, exception type,
innermost codelimit function) persists."""
from __future__ import annotations

import copy
import time

from .corpus import SMALLEST, CONTENTS


def _fails(spec, prop, sig, execute):
    res = execute(spec)
    return any(v["property"] == prop and v["sig"] == sig for v in res["violations"])


def minimise(spec, prop, sig, execute, budget_s=300):
    t0 = time.time()
    n_exec = 0

    def test(ops, swarm=None):
        nonlocal n_exec
        if time.time() - t0 > budget_s:
            return False
        cand = copy.deepcopy(spec)
        cand["ops"] = ops
        if swarm is not None:
            cand["swarm"] = swarm
        n_exec += 1
        try:
            return _fails(cand, prop, sig, execute)
        except Exception:  # noqa: BLE001 - a candidate that breaks the harness is just not kept
            return False

    ops = list(spec["ops"])
    if not test(ops):
        return spec, n_exec  # not reproducible in this process: keep as is
    # 1. ddmin: drop chunks of ops
    n = 2
    while len(ops) >= 2:
        chunk = max(1, len(ops) // n)
        reduced = False
        for start in range(0, len(ops), chunk):
            cand = ops[:start] + ops[start + chunk:]
            if cand and test(cand):
                ops = cand
                n = max(n - 1, 2)
                reduced = True
                break
        if not reduced:
            if chunk == 1:
                break
            n = min(len(ops), n * 2)
    # 2. simplify swarm: default orders
    swarm = dict(spec.get("swarm", {}))
    for key, simple in (("set_policy", "insertion"), ("walk_policy", "sorted")):
        if swarm.get(key) not in (None, simple):
            cand = dict(swarm)
            cand[key] = simple
            if test(ops, cand):
                swarm = cand
    # 3. simplify op arguments: smallest content, drop optional fields
    for j in range(len(ops)):
        op = ops[j]
        if op["op"] == "write" and isinstance(op.get("content"), str):
            lang = CONTENTS[op["content"]]["lang"]
            small = SMALLEST[lang]
            if op["content"] != small:
                cand = ops[:j] + [dict(op, content=small)] + ops[j + 1:]
                if test(cand, swarm):
                    ops = cand
        for opt in ("spelling", "verbose", "env"):
            if opt in ops[j]:
                o2 = dict(ops[j])
                del o2[opt]
                cand = ops[:j] + [o2] + ops[j + 1:]
                if test(cand, swarm):
                    ops = cand
        if ops[j]["op"] in ("set_yml", "set_gitignore", "set_cli") and ops[j].get("patterns"):
            pats = list(ops[j]["patterns"])
            k = 0
            while k < len(pats) and len(pats) > 1:
                cand_p = pats[:k] + pats[k + 1:]
                cand = ops[:j] + [dict(ops[j], patterns=cand_p)] + ops[j + 1:]
                if test(cand, swarm):
                    pats = cand_p
                    ops = cand
                else:
                    k += 1
    out = copy.deepcopy(spec)
    out["ops"] = ops
    out["swarm"] = swarm
    return out, n_exec
