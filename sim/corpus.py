"""Content universe: deterministic, generated source texts in the 7 languages.

Each content has an id `<lang>.<shape>`; function names embed the id so that two
different contents of one language never have the same measurement list
(a wrongly reused cache entry is therefore visible).
"""
from __future__ import annotations

LANGS = ("py", "js", "ts", "java", "c", "cpp", "cs")
EXT = {"py": ".py", "js": ".js", "ts": ".ts", "java": ".java", "c": ".c", "cpp": ".cpp", "cs": ".cs"}
LEXER_NAME = {"py": "Python", "js": "JavaScript", "ts": "TypeScript", "java": "Java", "c": "C",
              "cpp": "C++", "cs": "C#"}
LENGTHS = (2, 15, 16, 30, 31, 60, 61, 75)


def _ident(cid: str) -> str:
    return cid.replace(".", "_").replace("-", "_")


def _py_fn(name, length, indent=""):
    lines = [f"{indent}def {name}(a, b=(1, 2)):"]
    for i in range(max(0, length - 2)):
        lines.append(f"{indent}    a += {i}")
    if length >= 2:
        lines.append(f"{indent}    return a")
    return lines


def _brace_fn(header, length, indent="", stmt="a += {i};"):
    lines = [f"{indent}{header} {{"]
    for i in range(max(0, length - 2)):
        lines.append(f"{indent}    " + stmt.format(i=i))
    lines.append(f"{indent}}}")
    return lines


def _hdr(lang, name, variant=0):
    if lang == "js":
        return (f"function {name}(a, b)", f"const {name} = (a, b) =>", f"const {name} = async (a) =>")[variant % 3]
    if lang == "ts":
        return (f"function {name}(a: number, b: string)", f"const {name} = (a: number) =>",
                f"function {name}(a: number): number")[variant % 3]
    if lang == "java":
        return (f"public int {name}(int a, String b)", f"private static void {name}(int a) throws Exception")[variant % 2]
    if lang == "c":
        return f"int {name}(int a, char *b)"
    if lang == "cpp":
        return (f"int {name}(int a, std::string b)", f"void Foo::{name}(int a)")[variant % 2]
    if lang == "cs":
        return (f"public int {name}(int a, string b)", f"private static void {name}(int a)")[variant % 2]
    raise KeyError(lang)


def _wrap(lang, body_lines, cid):
    """Put member functions inside a class where the language wants one."""
    cls = "K" + _ident(cid)
    if lang == "java":
        return ["package p;", "", f"public class {cls} {{"] + ["    " + l if l else l for l in body_lines] + ["}"]
    if lang == "cs":
        return ["using System;", "", "namespace N", "{", f"    class {cls}", "    {"] + \
               ["        " + l if l else l for l in body_lines] + ["    }", "}"]
    if lang == "c":
        return ["#include <stdio.h>", ""] + body_lines
    if lang == "cpp":
        return ["#include <string>", ""] + body_lines
    return body_lines


def _fn(lang, name, length, variant=0, indent=""):
    if lang == "py":
        return _py_fn(name, length, indent)
    return _brace_fn(_hdr(lang, name, variant), length, indent)


def _comment(lang, text):
    return ("# " if lang == "py" else "// ") + text


def build():
    C = {}

    def put(cid, lines, lang, enc="utf-8", nl="\n", trailing=True, steps=None):
        text = nl.join(lines) + (nl if trailing and lines else "")
        C[cid] = {"lang": lang, "bytes": text.encode(enc)}
        if steps:
            # measured cost of one fault-free analysis in budget steps, for texts far above the
            # default allowance (analysis is quadratic in the nesting depth of functions)
            C[cid]["steps"] = steps

    for lang in LANGS:
        p = lang
        # single functions at every threshold neighbourhood
        for L in LENGTHS:
            cid = f"{p}.one{L}"
            put(cid, _wrap(lang, _fn(lang, "f_" + _ident(cid), L), cid), lang)
        # several functions, mixed categories
        cid = f"{p}.multi"
        body = []
        for j, L in enumerate((5, 31, 61, 16)):
            body += _fn(lang, f"m{j}_" + _ident(cid), L, variant=j) + [""]
        put(cid, _wrap(lang, body, cid), lang)
        cid = f"{p}.multi2"
        body = []
        for j, L in enumerate((3, 3, 40)):
            body += [_comment(lang, f"function number {j} {{ ( }}")] + _fn(lang, f"n{j}_" + _ident(cid), L, variant=j + 1) + [""]
        put(cid, _wrap(lang, body, cid), lang)
        # comments and strings containing delimiters
        cid = f"{p}.strings"
        nm = "s_" + _ident(cid)
        if lang == "py":
            body = [f"def {nm}(a):", "    s = '){(' + \"}}(\"  # )){{", "    # def fake(x):", "    t = '''", "    def nope():", "    '''", "    return s + t"]
        else:
            body = _brace_fn(_hdr(lang, nm), 2)[:1] + ["    /* } { ( */", "    char_or_str = \"}{)(\"; // }}}", "    other = '{';", "}"]
        put(cid, _wrap(lang, body, cid), lang)
        # nested
        cid = f"{p}.nested"
        o, i1, i2 = ("o_" + _ident(cid), "i1_" + _ident(cid), "i2_" + _ident(cid))
        if lang == "py":
            body = [f"def {o}(a):", "    x = 1"] + _py_fn(i1, 4, "    ") + ["    y = 2"] + _py_fn(i2, 33, "    ") + ["    return x"]
        elif lang in ("js", "ts"):
            body = [_hdr(lang, o) + " {", "    let x = 1;"] + _brace_fn(_hdr(lang, i1, 1), 4, "    ") + ["    let y = 2;"] + \
                   _brace_fn(_hdr(lang, i2, 0), 33, "    ") + ["    return x;", "}"]
        elif lang == "java":
            body = [_hdr(lang, o) + " {", "    Runnable r = new Runnable() {"] + _brace_fn(f"public void {i1}()", 4, "        ") + \
                   ["    };", "    r.run();", "}"]
        else:
            body = [_hdr(lang, o) + " {", "    if (a > 0) {", "        a -= 1;", "    }", "    while (a) { a--; }", "    return a;", "}"]
        put(cid, _wrap(lang, body, cid), lang)
        # multi-line header
        cid = f"{p}.mlhdr"
        nm = "h_" + _ident(cid)
        if lang == "py":
            body = [f"def {nm}(", "        a,", "        b=(1,", "           2),", "):", "    return a"]
        else:
            h = _hdr(lang, nm)
            head, tail = h.split("(", 1)
            body = [head + "(", "        " + tail, "{", "    a += 1;", "    return a;", "}"]
        put(cid, _wrap(lang, body, cid), lang)
        # degenerate
        put(f"{p}.empty", [], lang)
        put(f"{p}.ws", ["", "   ", "\t", ""], lang)
        put(f"{p}.comments", [_comment(lang, "only a comment"), _comment(lang, "nocl")], lang)
        put(f"{p}.nonl", _wrap(lang, _fn(lang, "z_" + _ident(f"{p}.nonl"), 3), f"{p}.nonl"), lang, trailing=False)
        # a byte-order mark directly in front of a function that starts on line 1
        C[f"{p}.bombare"] = {"lang": lang, "bytes": b"\xef\xbb\xbf" + ("\n".join(_fn(lang, "bb_" + _ident(f"{p}.bombare"), 34)) + "\n").encode()}
        # threshold-length functions as the whole file, no trailing newline (N lines, N-1 newline characters)
        for L in (31, 61):
            put(f"{p}.bare{L}", _fn(lang, "w_" + _ident(f"{p}.bare{L}"), L), lang, trailing=False)
        # malformed: leaves parentheses / braces open, header without body
        cid = f"{p}.unbal"
        nm = "u_" + _ident(cid)
        if lang == "py":
            body = _py_fn("ok_" + _ident(cid), 3) + ["", f"def {nm}(a, (b,", "    x = [1, 2", "    return ((a"]
        else:
            body = _fn(lang, "ok_" + _ident(cid), 3) + ["", _hdr(lang, nm) + " {", "    if (a) {", "        foo((a, b;", "    "]
        put(cid, _wrap(lang, body, cid)[: None if lang in ("py", "js", "ts", "c", "cpp") else -1], lang)
        cid = f"{p}.half"
        nm = "q_" + _ident(cid)
        if lang == "py":
            body = _py_fn("ok_" + _ident(cid), 3) + ["", f"def {nm}(a, b)"]
        else:
            body = _fn(lang, "ok_" + _ident(cid), 3) + ["", _hdr(lang, nm)]
        put(cid, body, lang, trailing=False)
        cid = f"{p}.closers"
        put(cid, ["}", ")", "]"] + _fn(lang, "c_" + _ident(cid), 4) + [") } )"], lang)
        # encodings and line endings of one common text
        cid = f"{p}.enc"
        base = [_comment(lang, "café naïve über")] + _fn(lang, "e_" + _ident(cid), 32) + [""] + _fn(lang, "e2_" + _ident(cid), 3)
        base = _wrap(lang, base, cid)
        put(cid + "_utf8", base, lang)
        put(cid + "_latin1", base, lang, enc="latin-1")
        put(cid + "_bom", base, lang, enc="utf-8-sig")
        put(cid + "_utf16", base, lang, enc="utf-16")
        put(cid + "_crlf", base, lang, nl="\r\n")
        put(cid + "_cr", base, lang, nl="\r")                     # classic-Mac line ends: lone CR
        C[cid + "_mixed"] = {"lang": lang, "bytes": C[cid + "_utf8"]["bytes"].replace(b"\n", b"\r\n", 3).replace(b"a += 7\n", b"a += 7\r")}
        # non-ASCII text inside the code: in a string before the function's last token (its end
        # column moves if the bytes are decoded differently) and, where the language allows, in a name
        cid = f"{p}.uni"
        nm = "v_" + _ident(cid)
        if lang == "py":
            body = [f"def {nm}(a):", "    s = 'żółw'", "    return 'é' + s + 'ü' * a", "", "def grüße_" + _ident(cid) + "(b): return 'ß' if b else 'ø'"]
        else:
            body = [_hdr(lang, nm) + " {", "    s = \"żółw\";", "    return s + \"é\"; }", "",
                    _hdr(lang, "w_" + _ident(cid), 1) + " { t = \"ß\"; return t; }"]
        put(cid, _wrap(lang, body, cid), lang)
        # a file longer than 64 KiB (comment padding, so that analysis stays cheap) with its
        # functions at the very end: anything that looks only at the head of a file misses them
        cid = f"{p}.big"
        pad = [_comment(lang, "padding %05d " % k + "x" * 78) for k in range(720)]
        body = _fn(lang, "head_" + _ident(cid), 3) + [""] + pad + [""] + _fn(lang, "tail_" + _ident(cid), 32) + [""] + _fn(lang, "tail2_" + _ident(cid), 4)
        put(cid, _wrap(lang, body, cid), lang)
        # deep nesting: 40 nested blocks inside a function, functions nested 10 deep where the
        # language nests, 60 nested parentheses in one expression
        cid = f"{p}.deep"
        nm = "d_" + _ident(cid)
        if lang == "py":
            body = [f"def {nm}(a):"] + ["    " * (k + 1) + "if a:" for k in range(40)] + ["    " * 41 + "a = " + "(" * 60 + "1" + ")" * 60, "    return a"]
            for k in range(10):
                body += ["    " * k + f"def n{k}_{_ident(cid)}(x):", "    " * (k + 1) + "x += 1"]
            body += ["    " * 10 + "return x"]
        else:
            body = [_hdr(lang, nm) + " {"] + ["    " * (k + 1) + "if (a) {" for k in range(40)] + \
                   ["    " * 41 + "a = " + "(" * 60 + "1" + ")" * 60 + ";"] + ["    " * (40 - k) + "}" for k in range(40)] + ["    return a;", "}"]
            if lang in ("js", "ts"):
                for k in range(10):
                    body += ["    " * k + f"function n{k}_{_ident(cid)}(x) {{", "    " * (k + 1) + "x += 1;"]
                body += ["    " * (10 - k) + "}" for k in range(1, 11)]
        put(cid, _wrap(lang, body, cid), lang)
        # more than 20 000 characters without a single newline (minified bundle, generated table)
        cid = f"{p}.oneline"
        if lang == "py":
            one = "t_" + _ident(cid) + " = [" + ", ".join(str(k) for k in range(4200)) + "]"
        else:
            one = "int t_" + _ident(cid) + "[] = {" + ", ".join(str(k) for k in range(4200)) + "};"
        C[cid] = {"lang": lang, "bytes": one.encode(), "slow": True}     # ~0.7 s per analysis
        # banner comments: long runs of comment-leader characters
        cid = f"{p}.banner"
        lead = "#" if lang == "py" else "/"
        body = [lead * 60, _comment(lang, "*" * 50), (lead * 2 + ";" * 40) if lang != "py" else "#" + ";" * 40 + "#" * 8]
        if lang != "py":
            body += ["/" + "*" * 70 + "/", "/*" + "*" * 40 + " section " + "*" * 40 + "*/", "/*" + "/" * 45 + "*/"]
        body += _fn(lang, "b_" + _ident(cid), 5) + [lead * 45 + " end"]
        put(cid, _wrap(lang, body, cid), lang)
        # two long functions of exactly the same length in one file
        cid = f"{p}.twins"
        body = _fn(lang, "t1_" + _ident(cid), 35) + [""] + _fn(lang, "t2_" + _ident(cid), 35, variant=1) + [""] + _fn(lang, "t3_" + _ident(cid), 62)
        put(cid, _wrap(lang, body, cid), lang)
        # suppression marker on a long function, next to an unmarked long one
        cid = f"{p}.nocl"
        f1 = _fn(lang, "hidden_" + _ident(cid), 34)
        f1[0] = f1[0] + ("  # nocl" if lang == "py" else "  // NOCL please")
        body = f1 + [""] + _fn(lang, "shown_" + _ident(cid), 33, variant=1)
        put(cid, _wrap(lang, body, cid), lang)
        # whitespace-only variation of .multi (same functions, more blank lines)
        cid = f"{p}.multi_ws"
        body = []
        for j, L in enumerate((5, 31, 61, 16)):
            body += ["", ""] + _fn(lang, f"m{j}_" + _ident(f"{p}.multi"), L, variant=j) + ["", _comment(lang, "x"), ""]
        put(cid, _wrap(lang, body, f"{p}.multi"), lang)

    # JS/TS: arrows inside arrow-function parameter lists (matcher ambiguity, F5)
    for lang in ("js", "ts"):
        ann = ": (x: number) => void" if lang == "ts" else " = () => 0"
        cid = f"{lang}.arrowparam"
        put(cid, [f"const h_{_ident(cid)} = (cb{ann}) => {{", "    cb(1);", "    return 2;", "}", "",
                  f"function k_{_ident(cid)}(a) {{", "    return a;", "}"], lang)
        cid = f"{lang}.arrowcall"
        put(cid, [f"const b_{_ident(cid)} = [1].map((v) => v);", "",
                  f"const g_{_ident(cid)} = (a) => {{", "    return [a].map((w) => w + 1);", "}"], lang)
        cid = f"{lang}.arrowmix"
        put(cid, [f"const p_{_ident(cid)} = (a, cb" + (": (y: string) => number" if lang == "ts" else " = (y) => y") + ") => {",
                  "    const q = (z) => {", "        return z;", "    }", "    return q(a);", "}"], lang)
    # Python specifics
    put("py.async", ["import asyncio", "", "async def a_py_async(x):", "    await x", "    return 1", "",
                     "class K:", "    def m_py_async(self):", "        pass", "", "    @staticmethod",
                     "    def s_py_async(y=lambda q: (q)):", "        return y"], "py")
    put("py.cont", ["def c_py_cont(a, \\", "        b):", "    x = a + \\", "        b", "    return x", "", "y = c_py_cont(1, 2)"], "py")
    put("py.contdef", ["x = 1 + \\", "def after_py_contdef(a):", "    return a", "", "async \\", "def main_py_contdef():", "    pass", "",
                        "y = (1,", "     2); z = \\", "    3", "def last_py_contdef(b): \\", "    return b"], "py")
    put("py.cookie", ["# -*- coding: utf8-unix -*-", "# Helpers for transcoding: input is bytes", "def k_py_cookie(a):", "    return a"], "py")
    put("py.cookie2", ["#!/usr/bin/env python", "# vim: set fileencoding=latin-9 :", "def k_py_cookie2(a):", "    return 'é'"], "py", enc="latin-1")
    put("py.nestone", ["def outer_py_nestone(x):", "    y = x + 1", "    def inner_py_nestone(): return y", "", "def second_py_nestone(a):",
                        "    if a:", "        def deep_py_nestone(): return a"], "py")
    put("py.tabs", ["def t_py_tabs(a):", "\tif a:", "\t\treturn 1", "\treturn 2"], "py")
    put("py.deflast", ["x = 1", "def d_py_deflast(a)"], "py", trailing=False)
    put("py.lambda", ["f = lambda a: (a)", "def l_py_lambda(a): return a", "g = [l_py_lambda(i) for i in (1, 2)]"], "py")
    # function definitions nested ~1100 deep (depth of recursion over a properly nested scope tree)
    for lang in ("js", "java"):
        cid = f"{lang}.deep1k"
        N = 1100
        if lang == "js":
            lines = ["function n%d_js_deep1k(x) {" % k for k in range(N)] + ["return x;"] + ["}"] * N
        else:
            lines = ["class K { void n0_java_deep1k() {"] + ["new Object() { void n%d_java_deep1k() {" % k for k in range(1, N)] + ["int x;"] + ["} };"] * (N - 1) + ["} }"]
        put(cid, lines, lang, steps=12_000_000 if lang == "js" else 23_000_000)
    put("ts.fnprop", ["const o_ts_fnprop = {function: 1, class: 2};", "let function_ts = o_ts_fnprop.function;",
                      "class A_ts_fnprop {", "    function(a: number) {", "        return a;", "    }", "    get function2(): number { return 1; }", "}",
                      "function real_ts_fnprop(x: number) {", "    return x;", "}"], "ts")
    put("ts.iface", ["interface Shape_ts_iface {", "    area(): number;", "    scale(k: number): Shape_ts_iface;", "}", "",
                     "abstract class Base_ts_iface {", "    abstract name(): string;", "    size(): number {", "        return 1;", "    }",
                     "    last(): void;", "}", "declare function ext_ts_iface(a: number): void;"], "ts")
    # Java specifics
    put("java.record", ["package p;", "public record R_java_record(int a) {", "    public int twice() {", "        return a * 2;",
                        "    }", "}", "abstract class A {", "    abstract void g_java_record();", "    void h_java_record() throws java.io.IOException, RuntimeException {",
                        "        return;", "    }", "}"], "java")
    # C specifics
    put("c.macro", ["#define EACH(x) for (int i = 0; i < x; i++)", "int m_c_macro(int n) {", "    EACH(n) {", "        n--;", "    }",
                    "    return n;", "}", "struct s { int (*fp)(int); };"], "c")
    put("cpp.ns", ["namespace a { namespace b {", "class Q {", "public:", "    Q() : x(0) {", "    }", "    int get_cpp_ns() const {",
                   "        return x;", "    }", "private:", "    int x;", "};", "} }", "int free_cpp_ns(int a) { return a; }"], "cpp")
    put("cs.prop", ["class P {", "    public int X { get; set; }", "    public int Get_cs_prop() => X;", "    public P(int x) {",
                    "        X = x;", "    }", "}"], "cs")
    return C


CONTENTS = build()
IDS = sorted(CONTENTS)
BY_LANG = {l: [i for i in IDS if CONTENTS[i]["lang"] == l] for l in LANGS}
SMALLEST = {l: f"{l}.one2" for l in LANGS}


def content_bytes(spec) -> bytes:
    """spec: content id, or {"b64": "..."} literal, or {"text": "..."}."""
    if isinstance(spec, str):
        return CONTENTS[spec]["bytes"]
    if "b64" in spec:
        import base64
        return base64.b64decode(spec["b64"])
    if "text" in spec:
        return spec["text"].encode("utf-8")
    raise KeyError(spec)


def lit(b: bytes):
    import base64
    try:
        t = b.decode("utf-8")
        if t.encode("utf-8") == b and "\r" not in t:
            return {"text": t}
    except UnicodeDecodeError:
        pass
    return {"b64": base64.b64encode(b).decode("ascii")}
