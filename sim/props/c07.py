"""C07 own workload: deep trees with shared prefixes, file/folder name clashes
and many files per folder, built under permuted insertion orders and rebuilt
from durable state (the conservation monitor in props/common.py decides)."""
from __future__ import annotations

from ..seams import stream
from ..corpus import EXT, LANGS
from .. import gen as G

SEGS = ["a", "b", "ab", "a.b", "src", "a.py", "x", "deep", "A", "Src", "B"]


def gen(i, R, tier):
    rng = stream(R, "world")
    sw = stream(R, "swarm")
    swarm = {"set_policy": sw.choice(("mixed", "insertion")),
             "walk_policy": sw.choice(("shuffled", "shuffled", "reversed", "sorted")),
        "dot_root": sw.random() < 0.12, "mode": "deep_tree"}
    placed = {}
    n = rng.randint(4, 24)
    for _ in range(n):
        depth = rng.choice((0, 1, 1, 2, 2, 3, 4, 5))
        d = "/".join(rng.choice(SEGS) for _ in range(depth))
        lang = rng.choice(LANGS)
        p = (d + "/" if d else "") + rng.choice(("a", "b", "ab", "m", "A", "M")) + EXT[lang]
        if any(q == p or q.startswith(p + "/") or p.startswith(q + "/") for q in placed):
            continue
        placed[p] = G.pick_content(rng, lang, 0.05, 0.4)
    if rng.random() < 0.15:
        d = rng.choice(("", "a/", "src/ab/"))
        placed[d + "caf\udce9.py"] = G.pick_content(rng, "py", 0.0, 0.4)
        placed[d + "caf\udce8.py"] = G.pick_content(rng, "py", 0.0, 0.4)
    ops = [{"op": "write", "path": p, "content": c} for p, c in placed.items()]
    ops.append({"op": "scan", "nonce": G.nonce(rng)})
    paths = sorted(placed)
    for _ in range(rng.randint(0, 4)):
        r = rng.random()
        if r < 0.4 and paths:
            ops.append({"op": "delete", "path": rng.choice(paths)})
        elif r < 0.7 and paths:
            p = rng.choice(paths)
            ops.append({"op": "write", "path": p, "content": G.pick_content(rng, G.lang_of_path(p) or "py", 0.05, 0.4)})
        else:
            ops.append({"op": "set_cli", "patterns": [rng.choice(SEGS)]})
        ops.append({"op": "scan", "nonce": G.nonce(rng)})
    ops.append({"op": "report", "fmt": "text", "nonce": G.nonce(rng)})
    return {"property": "C07", "workload": "C09", "seed": R, "swarm": swarm, "ops": ops}
