"""C12: check and scan agree on every file (differential between two entry
points over the same simulated worlds, cwd = codebase root)."""
from __future__ import annotations

import os

from ..seams import stream
from .. import gen as G
from . import c11


def exotic(rng, placed):
    """gitignore forms beyond the five model classes, aimed at existing paths."""
    out = []
    paths = sorted(placed)
    for _ in range(rng.randint(1, 3)):
        p = rng.choice(paths)
        parts = p.split("/")
        k = rng.random()
        if k < 0.35:
            # exclude a directory (or built-in excluded one), re-include one file in it
            d = parts[0] if len(parts) > 1 else rng.choice(("build", "tests", "src"))
            out.append(d if rng.random() < 0.5 else d + "/*")
            out.append("!" + p)
        elif k < 0.5:
            out.append("!" + p)
        elif k < 0.65:
            out.append("**/" + parts[-1])
        elif k < 0.8:
            out.append(parts[0] + "/**" if len(parts) > 1 else "**/*" + parts[-1][-3:])
        elif k < 0.9:
            out.append("/" + p)
        else:
            out.append(parts[-1][:-1] + "?")
    return out


def gen(i, R, tier):
    rng = stream(R, "world")
    sw = stream(R, "swarm")
    swarm = {
        "set_policy": sw.choice(("mixed", "insertion")),
        "walk_policy": sw.choice(("shuffled", "reversed", "sorted")),
        "dot_root": sw.random() < 0.12,
        "channels": sw.sample(("yml", "cli", "gitignore"), sw.randint(0, 2)),
        "bad_contents": sw.random() < 0.6,
        # the differential needs no model of pattern semantics, so a share of runs uses
        # gitignore forms outside the five classes (negation, **, ?, leading /)
        "exotic_patterns": sw.random() < 0.3,
    }
    ops, placed = G.base_tree(rng, 3, 9, p_bad=0.3 if swarm["bad_contents"] else 0.0, long_bias=0.5,
                              weird=0.1, extras=0.7)
    for ch in swarm["channels"]:
        pats = list(dict.fromkeys(c11.pattern(rng, placed) for _ in range(rng.randint(1, 2))))
        if swarm["exotic_patterns"]:
            pats += exotic(rng, placed)
        o = {"op": {"yml": "set_yml", "cli": "set_cli", "gitignore": "set_gitignore"}[ch], "patterns": pats}
        if ch == "gitignore":
            o["final_eol"] = rng.random() < 0.6
        ops.append(o)
    ops.append({"op": "scan", "nonce": G.nonce(rng), "spelling": "dot"})
    paths = sorted(placed)
    if rng.random() < 0.15:
        # whatever lies in the cache directory is none of check's business
        ops.append(rng.choice(({"op": "cache_truncate", "frac": rng.random()}, {"op": "cache_replace", "kind": "garbage"},
                               {"op": "cache_replace", "kind": "empty"}, {"op": "cache_replace", "kind": "list"},
                               {"op": "cache_set_version", "version": "0.0.1", "marker": True},
                               {"op": "cache_hibit", "field": "unit_name", "nth": 0})))
    if rng.random() < 0.35 and paths:
        # the tree moves on after the scan (pre-commit use: check runs on edited files while an
        # older cache is lying around); check must agree with a scan of the tree as it is now
        ops.append({"op": "advance_clock", "seconds": rng.choice((0, 5, 3600))})
        for _ in range(rng.randint(1, 3)):
            p = rng.choice(paths)
            lang = G.lang_of_path(p) or "py"
            r = rng.random()
            if r < 0.6:
                op = {"op": "write", "path": p, "content": G.pick_content(rng, lang, 0.1, 0.6)}
                if rng.random() < 0.5:
                    op["mtime_delta"] = -rng.choice((2, 3600, 86400 * 400))
                ops.append(op)
            elif r < 0.8 and len(paths) > 1:
                ops.append({"op": "rename", "src": rng.choice(paths), "dst": p, "overwrite": True})
            else:
                ops.append({"op": "corrupt", "path": p, "kind": rng.choice(("dup_line", "lost_line")), "arg": rng.randrange(0, 60)})
    targets = []
    # every way of reaching: relative file, each directory above it, '.', absolute root/dir
    for p in rng.sample(paths, min(len(paths), rng.randint(2, 6))):
        parts = p.split("/")
        hidden = any(x.startswith(".") for x in parts)
        if not hidden:
            targets.append([p])
            if rng.random() < 0.3:
                targets.append(["./" + p])
        for n in range(1, len(parts)):
            d = "/".join(parts[:n])
            if any(x.startswith(".") for x in parts[:n]):
                continue  # naming a hidden directory directly is unconstrained
            if rng.random() < 0.6:
                targets.append([d])
            if rng.random() < 0.3:
                targets.append(["<ROOT>/" + d])
    for o in ops:
        if o["op"] == "link" and not any(x.startswith(".") for x in o["dst"].split("/")):
            targets.append([o["dst"]])          # the alias itself, by relative path
    targets.append(["."])
    targets.append(["<ROOT>"])
    if len(paths) >= 2 and rng.random() < 0.4:
        a, b = rng.sample([p for p in paths if not any(x.startswith(".") for x in p.split("/"))] or ["."], 1) + ["."]
        targets.append([a, b])
    # several paths in one invocation, as a commit hook passes them: excluded, unsupported and
    # ordinary files in any order
    plain = [p for p in paths if not any(x.startswith(".") for x in p.split("/"))]
    for _ in range(rng.randint(0, 2)):
        if len(plain) >= 2:
            targets.append(rng.sample(plain, min(len(plain), rng.randint(2, 4))))
    seen = set()
    for t in targets:
        key = tuple(t)
        if key in seen:
            continue
        seen.add(key)
        ops.append({"op": "check", "args": t, "cwd": "root", "quiet": rng.random() < 0.3, "nonce": G.nonce(rng)})
    return {"property": "C12", "workload": "C12", "seed": R, "swarm": swarm, "ops": ops}
