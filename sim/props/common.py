"""Oracles evaluated after process ops.  Each violation is tagged with the
property it belongs to; a check reports only violations tagged with its own id.
"""
from __future__ import annotations

import json
import os

from ..seams import CTX
from ..world import MARKERS, CACHE_DIR, list_tree, read_bytes
from .. import oracles as O
from ..executor import violation, running_version

SCAN_OWNERS = ("C03", "C09", "C10")


def _reread(raw: bytes):
    """restart path: what `report`, `findings` and the next scan read back."""
    from codelimit.common.report.ReportReader import ReportReader
    from codelimit.common.report.ReportWriter import ReportWriter
    rep = ReportReader.from_json(raw.decode("utf-8"))
    return json.loads(ReportWriter(rep).to_json())


def monitor_c07(ex, idx, C, raw, where):
    ex.n_reports += 1
    probs = O.conservation(C)
    for p in probs[:3]:
        ex.add(violation("C07", "conservation", "%s: %s" % (where, p), idx))
    if probs:
        return
    try:
        R = _reread(raw)
    except Exception as e:  # reading back is C08/C10 business, not C07's
        ex.probe("c07_reread_failed")
        return
    probs = O.conservation(R)
    for p in probs[:3]:
        ex.add(violation("C07", "conservation_after_reread", "%s: %s" % (where, p), idx))
    ex.probe("c07_reports_checked")
    depth = max([k.count("/") for k in C["codebase"]["tree"]] + [0])
    ex.probe("c07_tree_depth_%d" % min(depth, 5))


def grand_totals_c07(ex, idx, obs, totals, where):
    """C07: 'the grand totals are the sums over languages'.  The grand totals only exist in
    the object the scan hands to its live display; it is observed through the Live seam."""
    live = obs.get("_live")
    st = getattr(live, "_stc", None)
    if st is None:
        ex.probe("c07_grand_totals_unobservable")
        return
    try:
        got = {"files": st.total_files(), "functions": st.total_functions(), "lines_of_code": st.total_loc(),
               "hard_to_maintain": st.total_hard_to_maintain(), "unmaintainable": st.total_unmaintainable()}
        per = {lt.language: {"files": lt.files, "functions": lt.functions, "lines_of_code": lt.loc,
                             "hard_to_maintain": lt.hard_to_maintain, "unmaintainable": lt.unmaintainable}
               for lt in st.languages_totals()}
    except (AttributeError, TypeError):
        ex.probe("c07_grand_totals_unobservable")
        return
    want = {k: sum(t[k] for t in totals.values()) for k in got}
    if got != want:
        ex.add(violation("C07", "grand_totals_are_sums_over_languages",
                         "%s: displayed grand totals %s != sums over the report's languages %s" % (where, got, want), idx))
    elif per != totals:
        ex.add(violation("C07", "displayed_language_totals_equal_report",
                         "%s: per-language totals handed to the display %s != report totals %s" % (where, O._short(per), O._short(totals)), idx))
    ex.probe("c07_grand_totals_checked")


def all_files(w):
    return [rel.replace(os.sep, "/") for rel, is_dir in list_tree(w.root) if not is_dir]


def current_patterns(w):
    from ..seams import PRISTINE
    # the built-in list is read as data, once, at import time of the code under test
    pats = list(PRISTINE["DEFAULT_EXCLUDES"])
    pats += list(w.yml_patterns or [])
    pats += list(w.cli_excludes or [])
    pats += [l for l in (w.gi_patterns or [])]
    return pats


def model_files(w):
    pats = current_patterns(w)
    return {f: O.model_language(f.rsplit("/", 1)[-1]) for f in all_files(w) if O.model_qualifies(f, pats)}


def after_scan(ex, idx, op, obs, C, raw, pre_cache, pre_class):
    w = ex.world
    wl = ex.wl
    nonce = op["nonce"]
    pending = ex.pending_fault
    owner_tag = "C10" if pending else (wl if wl in SCAN_OWNERS else None)

    # ---- the scan completes -------------------------------------------------
    if obs["outcome"] != "ok":
        if owner_tag:
            name = {"C10": "scan_after_fault_completes", "C09": "cached_scan_completes",
                    "C03": "scan_total"}[owner_tag]
            ex.add(violation(owner_tag, name, "scan ended %s %s %s (pending fault: %s)" % (
                obs["outcome"], obs.get("exc", ""), obs.get("msg", ""), pending), idx, obs,
                pending=pending))
        else:
            ex.probe("inconclusive_scan_failed")
        ex.pending_fault = None
        ex.cache_owner = None
        ex.last_scan_report = None
        if wl != "C03":
            ex.stop = True
        return
    # ---- it wrote a readable report -----------------------------------------
    if C is None or not isinstance(C, dict) or "codebase" not in C:
        tag = owner_tag or "C09"
        ex.add(violation(tag, "report_is_valid_json", "scan ok but cache file is %s" % (
            "missing" if raw is None else "not a JSON report: %r" % raw[:120]), idx, obs, pending=pending))
        ex.pending_fault = None
        ex.cache_owner = None
        ex.last_scan_report = None
        return
    ex.cache_owner = "own"
    ex.last_scan_report = C
    if not op.get("verbose"):
        try:
            grand_totals_c07(ex, idx, obs, C["codebase"]["totals"], "scan")
        except (KeyError, TypeError):
            pass
    ex.last_scan_tree = O.digest([w.tree_digest(), w.cli_excludes, w.yml_patterns, w.gi_patterns])
    if not (pending and pending.get("relaxed")):
        monitor_c07(ex, idx, C, raw, "scan")   # (a report built from undetectably rotted entries is not codelimit's doing)

    # ---- cache reuse accounting (C09) ---------------------------------------
    reusable = {}
    if isinstance(pre_cache, dict) and pre_cache.get("version") == running_version():
        try:
            reusable = {k: v.get("checksum") for k, v in pre_cache["codebase"]["files"].items()}
        except (KeyError, TypeError, AttributeError):
            reusable = {}
    analysed = set(obs.get("analysed_paths", []))
    n_hit = 0
    for path, e in C["codebase"]["files"].items():
        same = path in reusable and reusable[path] == e.get("checksum")
        if same and path not in analysed:
            n_hit += 1
        if ex.recorder and not same and path not in analysed and wl in ("C09", "C10"):
            ex.add(violation("C09", "reuse_only_if_unchanged",
                             "entry %s appears in the report without having been analysed although "
                             "no valid same-version cache entry with its path and checksum existed" % path, idx))
    if n_hit:
        ex.probe("cache_hit", n_hit)
    if reusable and any(p not in reusable or reusable[p] != e.get("checksum")
                        for p, e in C["codebase"]["files"].items()):
        ex.probe("cache_miss_changed")

    relaxed = bool(pending and pending.get("relaxed"))
    if relaxed:
        # undetectable same-shape bit rot: completion, valid JSON and the markers are what is owed
        missing = [m for m in MARKERS if not os.path.exists(os.path.join(w.cache_dir, m))]
        if missing:
            ex.add(violation("C10", "markers_restored", "after %s the scan left the cache directory without %s" % (pending, missing), idx, pending=pending))
        ex.probe("c10_relaxed_checked")
        ex.pending_fault = None
        ex.cache_owner = None          # what it holds may be wrong by no fault of the scan
        ex.last_scan_report = None
        # leave the world clean for the rest of the history
        w.op_cache_delete("dir")
        return
    # ---- equals the from-scratch report (C09 / C10 / C06) --------------------
    F = None
    if wl in ("C09", "C10", "C06") or pending:
        # every other reference scan sees the directory listings in exactly the order the scan
        # under test saw them; the lists inside the report must then agree in order as well
        same_walk = wl == "C09" and not pending and not ex.fresh_memo_on and O.digest(nonce)[-1] in "01234567"
        fobs, F, fmarkers = ex.fresh_reference(nonce, same_walk_as=nonce if same_walk else None)
        if fobs["outcome"] != "ok" or F is None:
            ex.probe("inconclusive_reference_failed")
            F = None
        else:
            monitor_c07(ex, idx, F, json.dumps(F).encode(), "reference scan")
            nC, nF = O.norm_report(C, w.root), O.norm_report(F, w.root)
            # identifier and timestamp may differ in value, not in kind
            odd = [k for k in ("uuid", "timestamp", "version") if type(C.get(k)) is not type(F.get(k))]
            if odd:
                tag = "C10" if pending else ("C06" if wl == "C06" else "C09")
                ex.add(violation(tag, "identifier_fields_well_formed", "fields %s have another JSON kind than in a from-scratch report: %s"
                                 % (odd, {k: C.get(k) for k in odd}), idx, pending=pending))
            if nC != nF:
                tag = "C10" if pending else ("C06" if wl == "C06" else "C09")
                name = {"C10": "scan_after_fault_equals_fresh", "C09": "cached_equals_fresh",
                        "C06": "rescan_equal"}[tag]
                ex.add(violation(tag, name, "; ".join(O.diff_reports(nC, nF)), idx, pending=pending,
                                 pre_cache_class=pre_class))
            elif same_walk:
                oc, of = O.ordered_view(C), O.ordered_view(F)
                if oc != of:
                    ex.add(violation("C09", "cached_equals_fresh_in_listing_order",
                                     "same directory listing order for both scans, yet the reports list things in different order: %s"
                                     % "; ".join(O.diff_reports(oc, of)), idx))
                ex.probe("c09_order_compared")
    # ---- C10: complete cache, and the healed cache does not taint -----------
    if pending:
        missing = [m for m in MARKERS if not os.path.exists(os.path.join(w.cache_dir, m))]
        if missing:
            ex.add(violation("C10", "markers_restored", "after %s the scan left the cache directory without %s"
                             % (pending, missing), idx, pending=pending))
        elif F is not None:
            # complete = what a first scan of a clean tree leaves, byte for byte
            bad = [m for m in MARKERS if m in fmarkers and read_bytes(os.path.join(w.cache_dir, m)) != fmarkers[m]]
            if bad:
                ex.add(violation("C10", "markers_valid", "after %s the scan left %s with content differing from a first scan's"
                                 % (pending, bad), idx, pending=pending))
        if F is not None:
            obs2 = w.scan("%s/again" % nonce, set_policy=ex.set_policy, walk_policy=ex.walk_policy)
            C2 = w.cache_json()
            if obs2["outcome"] != "ok":
                ex.add(violation("C10", "second_scan_after_fault_completes", "scan after the healing scan ended %s %s %s"
                                 % (obs2["outcome"], obs2.get("exc", ""), obs2.get("msg", "")), idx, obs2, pending=pending))
            elif C2 is None:
                ex.add(violation("C10", "healed_cache_is_valid_json", "second scan left an unreadable cache", idx, pending=pending))
            else:
                n2 = O.norm_report(C2, w.root)
                if n2 != O.norm_report(F, w.root):
                    ex.add(violation("C10", "healed_cache_does_not_taint", "; ".join(O.diff_reports(n2, O.norm_report(F, w.root))),
                                     idx, pending=pending))
                ex.probe("c10_heal_checked")
        ex.pending_fault = None

    # ---- C11: exactly the qualifying files ------------------------------------
    if wl in ("C11", "C09", "C12"):
        check_c11(ex, idx, op, obs, C)

    # ---- C03: the damaged file is reported, its neighbours are unaffected -----
    if wl == "C03":
        files = C["codebase"]["files"]
        if op.get("baseline"):
            ex.c03_baseline = json.loads(json.dumps(files))
        else:
            t = op.get("target")
            if t and t not in files:
                ex.add(violation("C03", "report_has_entry_for_damaged_file", "scan completed but %s is not in the report" % t, idx))
            for p, e in getattr(ex, "c03_baseline", {}).items():
                if p in files and files[p] != e:
                    ex.add(violation("C03", "neighbours_unaffected", "%s: %s" % (p, "; ".join(O.diff_reports(files[p], e))), idx))
            ex.probe("c03_world_scans")

    # ---- C06: every entry equals the reference table ------------------------
    if wl == "C06":
        from . import c06
        c06.check_entries(ex, idx, C)


def after_read_faulted_scan(ex, idx, op, obs, C):
    """The scan survived an injected EIO on reading a tree file.  It may have failed; having
    succeeded, what it reports must still be exactly the qualifying files (no silent drop)."""
    w = ex.world
    if not isinstance(C, dict) or "codebase" not in C:
        return
    pats = current_patterns(w)
    if any(O.model_pattern_class(p) is None for p in pats):
        return
    want = model_files(w)
    got = C["codebase"]["files"]
    if set(got) != set(want):
        ex.add(violation("C11", "io_error_never_yields_partial_report",
                         "scan ended ok after EIO on reading %s but reports %s instead of %s (missing: %s)" % (
                             obs["fault_fired"]["path"], len(got), len(want), sorted(set(want) - set(got))), idx))
    ex.probe("c11_read_fault_survived_checked")


def check_c11(ex, idx, op, obs, C):
    w = ex.world
    pats = current_patterns(w)
    outside = [p for p in pats if O.model_pattern_class(p) is None]
    if outside:
        ex.probe("c11_pattern_outside_model")
        return
    want = model_files(w)
    got = C["codebase"]["files"]
    if set(got) != set(want):
        extra = sorted(set(got) - set(want))
        missing = sorted(set(want) - set(got))
        ex.add(violation("C11", "exactly_qualifying_files",
                         "analysed but not qualifying: %s; qualifying but absent: %s (yml=%s cli=%s gitignore=%s spelling=%s)"
                         % (extra, missing, w.yml_patterns, w.cli_excludes, w.gi_patterns, op.get("spelling") or w.spelling), idx))
        return
    for path, e in got.items():
        if e.get("language") != want[path]:
            ex.add(violation("C11", "language_of_entry", "%s: language %r, model %r" % (path, e.get("language"), want[path]), idx))
        real = O.checksums_of(read_bytes(w.p(path)))
        if e.get("checksum") not in real:
            ex.add(violation("C11", "checksum_of_entry", "%s: checksum %r is no standard digest (md5/sha1/sha256/sha512/blake2b) of the file's bytes"
                             % (path, e.get("checksum")), idx))
    # keys exactly once is implied by JSON object + raw text count
    if ex.recorder:
        bad = [p for p in obs.get("analysed_paths", []) if p not in want]
        if bad:
            ex.add(violation("C11", "non_qualifying_never_analysed", "analysed: %s" % bad, idx))
    ex.probe("c11_model_checked")
    ex.probe("c11_files_in", len(want))
    ex.probe("c11_files_out", len(all_files(w)) - len(want))
    # non-interference (metamorphic): delete every non-qualifying file, rescan from scratch
    if ex.wl == "C11" and op.get("noninterference", True):
        keep_cfg = {".codelimit.yml", ".gitignore"}
        w.snapshot_tree()
        try:
            removed = 0
            for f in all_files(w):
                if f in want or f in keep_cfg or f.startswith(CACHE_DIR + "/"):
                    continue
                os.unlink(w.p(f))
                removed += 1
            if removed:
                fobs, F, _ = ex.fresh_reference("%s/ni" % op["nonce"])
                if fobs["outcome"] == "ok" and F is not None:
                    a, b = O.norm_report(C, w.root), O.norm_report(F, w.root)
                    # empty folders may remain in the pruned world; they carry no files and
                    # are not part of the report, so the comparison is exact
                    if a != b:
                        ex.add(violation("C11", "non_qualifying_never_influence", "; ".join(O.diff_reports(a, b)), idx))
                    ex.probe("c11_noninterference_checked")
                else:
                    ex.probe("inconclusive_reference_failed")
        finally:
            cwd_cfg = (w.yml_patterns, w.gi_patterns)
            w.restore_tree()
            w.yml_patterns, w.gi_patterns = cwd_cfg


# ----------------------------------------------------------------------------
def after_check(ex, idx, op, obs):
    w = ex.world
    wl = ex.wl
    ok_exit = obs["outcome"] == "exit" and obs.get("code") in (0, 1)
    if wl == "C03":
        if not ok_exit:
            ex.add(violation("C03", "check_total", "check %s (cwd=%s) ended %s %s %s" % (
                op["args"], op.get("cwd", "root"), obs["outcome"], obs.get("exc", obs.get("code", "")), obs.get("msg", "")), idx, obs))
        return
    if wl != "C12":
        return
    S = ex.last_scan_report
    if S is None:
        ex.probe("c12_no_scan_to_compare")
        return
    now = O.digest([w.tree_digest(), w.cli_excludes, w.yml_patterns, w.gi_patterns])
    if now != getattr(ex, "last_scan_tree", None):
        # the tree changed since the scan: compare with a scan of the tree as it is now
        if getattr(ex, "c12_ref_key", None) != now:
            fobs, F, _ = ex.fresh_reference("%s/c12ref" % op["nonce"])
            ex.c12_ref_key, ex.c12_ref = now, (F if fobs["outcome"] == "ok" else None)
        S = ex.c12_ref
        ex.probe("c12_compared_after_edits")
        if S is None:
            ex.probe("inconclusive_reference_failed")
            return
    if not ok_exit:
        ex.add(violation("C12", "check_handles_what_scan_handles", "scan analysed the tree, check %s ended %s %s %s" % (
            op["args"], obs["outcome"], obs.get("exc", obs.get("code", "")), obs.get("msg", "")), idx, obs))
        return
    files = S["codebase"]["files"]
    universe = all_files(w)
    reach_analysed = []   # multiset of scan-analysed files reachable through the args
    reach_unsupported = 0
    for a in op["args"]:
        a2 = a.replace("<ROOT>", w.root)
        full = os.path.normpath(a2 if os.path.isabs(a2) else os.path.join(w.root, a2))
        rel = os.path.relpath(full, w.root).replace(os.sep, "/")
        if os.path.isfile(full):
            if rel in files:
                reach_analysed.append(rel)
            elif O.model_language(rel.rsplit("/", 1)[-1]) is None:
                reach_unsupported += 1
        else:
            prefix = "" if rel == "." else rel + "/"
            for f in universe:
                if f.startswith(prefix):
                    if f in files:
                        reach_analysed.append(f)
                    elif O.model_language(f.rsplit("/", 1)[-1]) is None:
                        reach_unsupported += 1
    want = []
    for f in reach_analysed:
        for m in files[f]["measurements"]:
            if m["value"] > 30:
                want.append((f, m["start"]["line"], m["start"]["column"], m["value"], m["unit_name"]))
    finds, n, rest = O.parse_check_output(obs["stdout"])
    got = []
    for (p, line, col, length, name) in finds:
        p2 = p
        if os.path.isabs(p2):
            p2 = os.path.relpath(p2, w.root)
        got.append((os.path.normpath(p2).replace(os.sep, "/"), line, col, length, name))
    if sorted(got) != sorted(want):
        ex.add(violation("C12", "check_lists_scan_functions_over_30",
                         "check %s listed %s; scan measured %s" % (op["args"], sorted(got), sorted(want)), idx))
    if n is not None:
        lo, hi = len(reach_analysed), len(reach_analysed) + reach_unsupported
        if not (lo <= n <= hi):
            ex.add(violation("C12", "check_visits_exactly_scanned_files",
                             "check %s reports %d files checked; scan analysed %d of the reachable files (%d unsupported reachable)"
                             % (op["args"], n, lo, reach_unsupported), idx))
    elif not op.get("quiet"):
        ex.add(violation("C12", "check_output_parsable", "no summary line in %r" % obs["stdout"][-300:], idx))
    ex.probe("c12_checks_compared")
    if want:
        ex.probe("c12_checks_with_findings")


# ----------------------------------------------------------------------------
def after_report(ex, idx, op, obs):
    if ex.wl not in ("C09",):
        return
    owner = ex.cache_owner
    if op["op"] == "report" and obs.get("diff_used") and owner == "own":
        # the comparison baseline is a report too: one written by another version must be refused
        if ex.baseline_version != running_version():
            if not (obs["outcome"] == "exit" and obs.get("code") == 1):
                ex.add(violation("C09", "other_version_baseline_refused", "report --diff with a baseline of version %r ended %s %s"
                                 % (ex.baseline_version, obs["outcome"], obs.get("code", obs.get("exc", ""))), idx, obs))
            ex.probe("c09_foreign_baseline")
            return
        ex.probe("c09_own_baseline")
    if owner == "foreign":
        if not (obs["outcome"] == "exit" and obs.get("code") == 1):
            ex.add(violation("C09", "other_version_refused", "%s of a cache written by another version ended %s %s"
                             % (op["op"], obs["outcome"], obs.get("code", obs.get("exc", ""))), idx, obs))
        ex.probe("c09_foreign_version_display")
    elif owner == "own":
        if obs["outcome"] != "ok":
            ex.add(violation("C09", "own_report_displayed", "%s of the report the last scan wrote ended %s %s %s"
                             % (op["op"], obs["outcome"], obs.get("code", obs.get("exc", "")), obs.get("msg", "")), idx, obs))
        ex.probe("c09_own_version_display")
