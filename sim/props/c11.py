"""C11: exactly the non-hidden, non-excluded files of supported languages are
analysed.  The simulator generates the environment (tree x exclusion channels
x root spelling x listing order); the reference model is oracles.model_*."""
from __future__ import annotations

from ..seams import stream
from .. import gen as G

NAMES = ["src", "lib", "pkg", "sub", "deep", "er", "x", "y", "z", "a", "b", "c", "d", "K", "m", "w", "main",
         "tests", "test", "build", "dist", "venv", "node_modules", "t", "p", "i", "v"]
EXTS = ["py", "js", "ts", "java", "c", "cpp", "cs", "txt", "h", "json"]
SPELLINGS = ("dot", "rel_parent", "abs", "dotdot", "abs_dotdot", "rel_outside", "trailing", "symlink", "symlink_abs", "symlink_dotdot")


def pattern(rng, placed):
    """One pattern from the five unambiguous gitignore classes, biased to hit."""
    from ..oracles import model_pattern_class
    for _ in range(20):
        p = _pattern(rng, placed)
        if model_pattern_class(p) is not None:
            return p
    return "src"


def _pattern(rng, placed):
    paths = sorted(placed)
    p = rng.choice(paths) if paths and rng.random() < 0.8 else G.new_path(rng)
    parts = p.split("/")
    k = rng.random()
    if k < 0.08:                                   # /name or /a/b: anchored at the root explicitly
        n = rng.randint(1, len(parts))
        if rng.random() < 0.5 and len(parts) > 1:
            return "/" + rng.choice(parts[1:])     # a name that also exists deeper: must only match at the root
        return "/" + "/".join(parts[:n])
    if k < 0.25:                                   # bare name (file or directory at any depth)
        return rng.choice(parts)
    if k < 0.45:                                   # dir/
        if len(parts) > 1:
            return rng.choice(parts[:-1]) + "/"
        return rng.choice(NAMES) + "/"
    if k < 0.6:                                    # *.ext
        return "*." + (parts[-1].rsplit(".", 1)[-1] if "." in parts[-1] and rng.random() < 0.7 else rng.choice(EXTS))
    if k < 0.8:                                    # anchored a/b
        if len(parts) > 1:
            n = rng.randint(2, len(parts))
            return "/".join(parts[:n])
        return rng.choice(NAMES) + "/" + parts[-1]
    if len(parts) > 1:                             # a/*
        n = rng.randint(1, len(parts) - 1)
        return "/".join(parts[:n]) + "/*"
    return rng.choice(NAMES) + "/*"


def gen(i, R, tier, noninterference=True):
    rng = stream(R, "world")
    sw = stream(R, "swarm")
    swarm = {
        "set_policy": sw.choice(("mixed", "insertion")),
        "walk_policy": sw.choice(("shuffled", "shuffled", "reversed", "sorted")),
        "dot_root": sw.random() < 0.12,
        "channels": sw.sample(("yml", "cli", "gitignore"), sw.randint(0, 3)),
        "distractors": sw.random() < 0.5,
        "track_states": True,
    }
    ops, placed = G.base_tree(rng, 3, 10, p_bad=0.0, long_bias=0.2, weird=0.15 if sw.random() < 0.3 else 0.0, extras=0.85)
    for ch in swarm["channels"]:
        pats = []
        for _ in range(rng.randint(1, 3)):
            pats.append(pattern(rng, placed))
        pats = list(dict.fromkeys(pats))
        if ch == "yml":
            ops.append({"op": "set_yml", "patterns": pats})
        elif ch == "cli":
            ops.append({"op": "set_cli", "patterns": pats})
        else:
            ops.append({"op": "set_gitignore", "patterns": pats, "final_eol": rng.random() < 0.6,
                        "eol": "\r\n" if rng.random() < 0.15 else "\n"})
    if swarm["distractors"]:
        # nested .gitignore / .codelimit.yml files must have no effect
        for d in rng.sample(G.DISTRACTOR_DIRS, rng.randint(1, 2)):
            if rng.random() < 0.5:
                ops.append({"op": "set_gitignore", "patterns": ["*.py", "*", "a.py", "K.cs"][: rng.randint(1, 4)], "where": d})
            else:
                ops.append({"op": "set_yml", "patterns": ["*.js", "src", "lib"][: rng.randint(1, 3)], "where": d})
    n_scans = rng.randint(1, 2)
    for s in range(n_scans):
        op = {"op": "scan", "nonce": G.nonce(rng), "spelling": rng.choice(SPELLINGS)}
        if rng.random() < 0.12:
            # a failing read (EIO) of the k-th tree file opened by the scan
            op["read_fault"] = {"n": rng.randrange(0, 24)}
        if not noninterference or rng.random() < 0.5:
            op["noninterference"] = False
        ops.append(op)
        if s + 1 < n_scans:
            # mutate the environment between scans: the second scan runs with a cache
            r = rng.random()
            if r < 0.25 and placed:
                # the same bytes appear under a name of another language (copy / rename)
                src = rng.choice(sorted(placed))
                lang = G.lang_of_path(src)
                other = rng.choice([l for l in G.LANGS if l != lang]) if lang else "py"
                dst = G.new_path(rng, other)
                ops.append({"op": "write", "path": dst, "content": placed[src]})
            elif r < 0.4 and placed:
                ops.append({"op": "delete", "path": rng.choice(sorted(placed))})
            elif r < 0.7:
                ops.append({"op": "set_cli", "patterns": [pattern(rng, placed)]})
            elif r < 0.85 and placed:
                # new bytes under an existing name, with a modification time older than the last scan
                p = rng.choice(sorted(placed))
                ops.append({"op": "advance_clock", "seconds": 5})
                ops.append({"op": "write", "path": p, "content": G.pick_content(rng, G.lang_of_path(p) or "py", 0.0, 0.5),
                            "mtime_delta": -rng.choice((60, 86400 * 30))})
            else:
                p = G.new_path(rng)
                ops.append({"op": "write", "path": p, "content": G.pick_content(rng, G.lang_of_path(p), 0.0)})
    return {"property": "C11", "workload": "C11", "seed": R, "swarm": swarm, "ops": ops}
