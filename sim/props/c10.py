"""C10: a damaged or partial cache never breaks or taints the next scan.

Crash-point enumeration (record, then cut), structural faults on the durable
state, and random fault sequences.
"""
from __future__ import annotations

import hashlib
import json
import os

from ..seams import CTX, stream
from .. import gen as G
from .. import faults as F
from .. import oracles as O
from ..executor import violation
from . import c09

# worlds for the sweeps: (files, older-state edit)
WORLDS = [
    {"files": {"a.py": "py.one31", "src/b.js": "js.multi", "src/deep/c.java": "java.one2"},
     "older": [{"op": "write", "path": "a.py", "content": "py.one61"}, {"op": "write", "path": "old.c", "content": "c.multi"}]},
    {"files": {"K.cs": "cs.one16", "lib/g.cpp": "cpp.nested"},
     "older": [{"op": "write", "path": "lib/g.cpp", "content": "cpp.one75"}]},
    {"files": {"m.ts": "ts.multi2", "x/y/z/w.ts": "ts.one61", "x/y/p.py": "py.nested", "q.c": "c.strings", "café.py": "py.one2"},
     "older": [{"op": "delete", "path": "q.c"}, {"op": "write", "path": "x/n.js", "content": "js.one31"}]},
    {"files": {"only.py": "py.empty"}, "older": [{"op": "write", "path": "only.py", "content": "py.one2"}]},
    {"files": {"caf\udce9.py": "py.one16", "caf\udce8.py": "py.one31", "cafe\u0301/we\"ird.js": "js.one31", "back\\slash.c": "c.one2"},
     "older": [{"op": "write", "path": "caf\udce9.py", "content": "py.one61"}]},
]
KINDS = ("crash", "enospc", "eio")
STARTS = ("none", "older")


def world_ops(wi, start, rng):
    W = WORLDS[wi]
    ops = []
    if start == "older":
        # a valid cache of a different (older) tree state, markers included
        for p, c in W["files"].items():
            ops.append({"op": "write", "path": p, "content": c})
        ops += [dict(o) for o in W["older"]]
        ops.append({"op": "scan", "nonce": G.nonce(rng)})
        for o in W["older"]:
            if o["op"] == "write" and o["path"] not in W["files"]:
                ops.append({"op": "delete", "path": o["path"]})
    for p, c in W["files"].items():
        ops.append({"op": "write", "path": p, "content": c})
    return ops


def _is_boundary(raw: bytes, k: int) -> bool:
    """structural boundary of the report text: just after { } [ ] , : " """
    return k == 0 or k >= len(raw) or raw[k - 1:k] in (b"{", b"}", b"[", b"]", b",", b":", b'"') or raw[k:k + 1] in (b"}", b"]")


def do_crash_sweep(ex, idx, op):
    """One op = a slice of the crash-point enumeration for the current world."""
    from . import common
    w = ex.world
    kind = op["kind"]
    nonce = op["nonce"]
    w.snapshot_tree()
    ex.fresh_memo_on = True
    # 1. record a fault-free scan: mutation ticks and what each covers
    rec = w.scan("%s/rec" % nonce, record_io=True, set_policy="insertion", walk_policy="sorted")
    if rec["outcome"] != "ok":
        ex.probe("inconclusive_scan_failed")
        w.restore_tree()
        return {"outcome": rec["outcome"], "noop": "recording scan failed"}
    N = rec["io_ticks"]
    events = rec["io_events"]
    raw = w.cache_bytes() or b""
    # tick at which the report file's bytes start
    json_start = None
    for e in events:
        if e["ev"] == "write" and e["path"].endswith("codelimit.json"):
            json_start = e["tick"] if json_start is None else min(json_start, e["tick"])
    if op.get("ticks") is not None:
        ticks = [t for t in op["ticks"] if 0 <= t < N]
    else:
        stride, parts, part = op.get("stride", 1), op.get("parts", 1), op.get("part", 0)
        cands = list(range(N))
        if stride > 1:
            # stratified: every stride-th tick, every tick before the report body (mkdir,
            # marker files), the last 48 ticks, optionally every structural boundary
            cands = [t for t in cands if t % stride == 0 or json_start is None or t < json_start
                     or t >= N - 48 or (op.get("boundaries") and _is_boundary(raw, t - json_start))]
        ticks = [t for j, t in enumerate(cands) if j % parts == part]
    n_done = 0
    for t in ticks:
        w.restore_tree()
        CTX.counters["c10_crash_points"] += 1
        fobs = w.scan("%s/rec" % nonce, fault={"kind": kind, "tick": t}, set_policy="insertion", walk_policy="sorted")
        fired = fobs.get("fault_fired")
        if fired is None:
            ex.probe("c10_fault_not_reached")
            continue
        if fobs["outcome"] == "internal_error":
            # the faulted scan may fail, but only as the injected fault
            ex.add(violation("C10", "faulted_scan_fails_only_as_injected",
                             "scan with %s at tick %d ended %s %s" % (kind, t, fobs.get("exc"), fobs.get("msg")),
                             idx, fobs, narrow={"ticks": [t]}))
        post = w.cache_bytes()
        post_class = w.cache_class()
        ex.subcase_digests.add(O.digest([kind, fired.get("at"), fired.get("path"), fired.get("byte"),
                                         hashlib.md5(post or b"-").hexdigest(), post_class]))
        ex.probe("c10_post_state_" + post_class)
        if fired["path"].endswith("codelimit.json"):
            ex.probe("crash_in_json")
        elif fired["at"] == "mkdir":
            ex.probe("crash_at_mkdir")
        else:
            ex.probe("crash_before_json")
        ex.pending_fault = {"op": "scan_fault", "kind": kind, "tick": t, "at": fired["at"], "path": fired["path"],
                            "byte": fired["byte"], "of": N}
        if op.get("second"):
            # a second interruption, during the scan that would have healed the first one
            r2 = stream(nonce, "second", t)
            t2 = r2.choice((0, 1, 2, 3)) if r2.random() < 0.2 else r2.randrange(0, N)
            k2 = r2.choice(KINDS)
            f2 = w.scan("%s/second/%d" % (nonce, t), fault={"kind": k2, "tick": t2}, set_policy=ex.set_policy, walk_policy=ex.walk_policy)
            if f2.get("fault_fired"):
                ex.probe("c10_double_fault")
                ex.pending_fault["then"] = {"kind": k2, "tick": t2, "at": f2["fault_fired"]["at"]}
                ex.subcase_digests.add(O.digest([kind, t, k2, t2, w.cache_class()]))
                if f2["outcome"] == "internal_error":
                    ex.add(violation("C10", "faulted_scan_fails_only_as_injected",
                                     "second faulted scan (%s at tick %d after %s at tick %d) ended %s %s" % (k2, t2, kind, t, f2.get("exc"), f2.get("msg")),
                                     idx, f2, narrow={"ticks": [t]}))
        nv = len(ex.viol)
        pre_cache, pre_class = w.cache_json(), post_class
        hobs = w.scan("%s/heal/%d" % (nonce, t), set_policy=ex.set_policy, walk_policy=ex.walk_policy)
        common.after_scan(ex, idx, {"op": "scan", "nonce": "%s/heal/%d" % (nonce, t)}, hobs, w.cache_json(),
                          w.cache_bytes(), pre_cache, pre_class)
        for v in ex.viol[nv:]:
            v["narrow"] = {"ticks": [t]}
        ex.stop = False
        n_done += 1
        if len(ex.viol) > 12:
            break
    w.restore_tree()
    ex.pending_fault = None
    ex.fresh_memo_on = False
    ex.subcases += n_done
    return {"outcome": "ok", "result": "%d/%d ticks of %d" % (n_done, len(ticks), N), "io_ticks": N}


def struct_mutations(d):
    """All kind-changing single-path mutations and key deletions of document d."""
    out = []
    for p in F.json_paths(d):
        cur = d
        for k in p:
            cur = cur[k]
        parent = d
        for k in p[:-1]:
            parent = parent[k]
        if isinstance(parent, dict):
            out.append((list(p), "delete_key"))
        ck = F.kind_of(cur)
        for k in F.JSON_KINDS:
            if k != ck:
                out.append((list(p), "kind:" + k))
        for v in {"number": ("zero", "neg", "huge", "frac"), "string": ("empty", "other", "long"),
                  "array": ("empty", "half", "short"), "object": ("empty",)}.get(ck, ()):
            out.append((list(p), "same:" + v))
    return out


def do_struct_sweep(ex, idx, op):
    from . import common
    w = ex.world
    nonce = op["nonce"]
    d = w.cache_json()
    if not isinstance(d, dict):
        return {"noop": "no_valid_cache"}
    w.snapshot_tree()
    ex.fresh_memo_on = True
    if op.get("only") is not None:
        muts = [tuple(op["only"])]
    else:
        allm = struct_mutations(d)
        muts = [m for j, m in enumerate(allm) if j % op.get("parts", 1) == op.get("part", 0)]
    n_done = 0
    for jpath, mutation in muts:
        w.restore_tree()
        r = w.op_cache_mutate(jpath, mutation)
        if "noop" in r:
            continue
        CTX.counters["c10_struct_faults"] += 1
        ex.subcase_digests.add(O.digest(["struct", jpath, mutation]))
        ex.pending_fault = {"op": "cache_mutate", "jpath": jpath, "mutation": mutation}
        if mutation.startswith("same:"):
            ex.pending_fault["relaxed"] = True     # undetectable by any reader: completion only
        leaf = jpath[-1] if not isinstance(jpath[-1], int) else "[i]"
        ex.probe("c10_mut_%s" % (mutation if mutation == "delete_key" else mutation.split(":")[0]))
        nv = len(ex.viol)
        pre_cache, pre_class = w.cache_json(), w.cache_class()
        sn = "%s/heal/%s" % (nonce, O.digest([jpath, mutation]))
        hobs = w.scan(sn, set_policy=ex.set_policy, walk_policy=ex.walk_policy)
        common.after_scan(ex, idx, {"op": "scan", "nonce": sn}, hobs, w.cache_json(), w.cache_bytes(), pre_cache, pre_class)
        for v in ex.viol[nv:]:
            v["narrow"] = {"only": [jpath, mutation]}
            v["sig"] = v["sig"] + "@" + str(leaf)
        ex.stop = False
        n_done += 1
        if len(ex.viol) > 40:
            break
    w.restore_tree()
    ex.pending_fault = None
    ex.fresh_memo_on = False
    ex.subcases += n_done
    return {"outcome": "ok", "result": "%d mutations" % n_done}


SIMPLE_FAULTS = (
    [{"op": "cache_replace", "kind": k} for k in sorted(F.CACHE_REPLACEMENTS)]
    + [{"op": "cache_replace", "kind": k} for k in F.CACHE_DERIVED]
    + [{"op": "cache_delete", "what": x} for x in ("file", "markers", "dir", "CACHEDIR.TAG", ".gitignore")]
    + [{"op": "cache_truncate", "frac": f} for f in (0.0, 0.01, 0.25, 0.5, 0.75, 0.99)]
    + [{"op": "cache_truncate", "k": k} for k in (1, 2, 3, 10, 40, 80)]
    + [{"op": "cache_flip", "k": 7919 * j + 13, "xor": (1, 0x20, 0x80, 0x04)[j % 4]} for j in range(24)]
    + [{"op": "cache_hibit", "field": f, "nth": n} for f in ("unit_name", "language", "checksum", "root", "uuid") for n in (0, 1)]
)

PARTS_CRASH = 16
PARTS_STRUCT = 8


def plan(tier):
    """Enumerated part of the C10 case list: list of (kind, params)."""
    cases = []
    worlds = (0, 3, 4) if tier == "quick" else (0, 1, 2, 3, 4)
    kinds = ("crash", "enospc") if tier == "quick" else KINDS
    stride = 6 if tier == "quick" else 1
    for wi in worlds:
        for start in STARTS:
            for kind in kinds:
                for part in range(PARTS_CRASH):
                    cases.append(("crash", {"wi": wi, "start": start, "kind": kind, "part": part, "stride": stride}))
    for wi in ((0,) if tier == "quick" else (0, 2)):
        for start in STARTS:
            for part in range(PARTS_CRASH // (4 if tier == "quick" else 1)):
                cases.append(("crash2", {"wi": wi, "start": start, "kind": "crash", "part": part,
                                         "parts": PARTS_CRASH // (4 if tier == "quick" else 1), "stride": 64 if tier == "quick" else 7}))
    sworlds = (0,) if tier == "quick" else (0, 1, 2)
    for wi in sworlds:
        for part in range(PARTS_STRUCT * (1 if tier == "quick" else 2)):
            cases.append(("struct", {"wi": wi, "part": part, "parts": PARTS_STRUCT * (1 if tier == "quick" else 2)}))
    for wi in ((0, 2, 4) if tier == "quick" else (0, 1, 2, 3, 4)):
        for start in STARTS:
            for j in range(len(SIMPLE_FAULTS)):
                cases.append(("simple", {"wi": wi, "start": start, "j": j}))
    return cases


_PLAN = {}


def gen(i, R, tier):
    rng = stream(R, "world")
    sw = stream(R, "swarm")
    if tier not in _PLAN:
        _PLAN[tier] = plan(tier)
    P = _PLAN[tier]
    swarm = {"set_policy": sw.choice(("mixed", "shuffled", "insertion")),
             "walk_policy": sw.choice(("shuffled", "reversed", "sorted"))}
    verbose_world = sw.random() < 0.25
    swarm["verbose_world"] = verbose_world
    if i < len(P):
        kind, a = P[i]
        swarm["mode"] = kind
        if kind in ("crash", "crash2"):
            ops = world_ops(a["wi"], a["start"], rng)
            ops.append({"op": "crash_sweep", "kind": a["kind"], "nonce": G.nonce(rng),
                        "stride": a["stride"], "parts": a.get("parts", PARTS_CRASH), "part": a["part"]})
            if kind == "crash2":
                ops[-1]["second"] = True
        elif kind == "struct":
            ops = world_ops(a["wi"], "none", rng)
            ops.append({"op": "scan", "nonce": G.nonce(rng)})
            ops.append({"op": "struct_sweep", "nonce": G.nonce(rng), "part": a["part"], "parts": a["parts"]})
        else:
            ops = world_ops(a["wi"], "none", rng)
            ops.append({"op": "scan", "nonce": G.nonce(rng)})
            if a["start"] == "older":
                ops += [dict(o) for o in WORLDS[a["wi"]]["older"]]
            ops.append(dict(SIMPLE_FAULTS[a["j"]]))
            ops.append({"op": "scan", "nonce": G.nonce(rng)})
            ops.append({"op": "scan", "nonce": G.nonce(rng)})
        if verbose_world:
            # .codelimit.yml with verbose: true - every scan of this case logs instead of using the live table
            ops.insert(0, {"op": "set_yml", "patterns": [], "verbose": True})
        return {"property": "C10", "workload": "C10", "seed": R, "swarm": swarm, "ops": ops}
    # ---- random fault sequences interleaved with edits and scans ----------------
    swarm["mode"] = "sequence"
    weights = dict(c09.BASE_WEIGHTS)
    weights.update({"cache_fault": 5, "identity": 0.5, "set_version": 0.5, "report": 0.2, "findings": 0.2,
                    "set_yml": 0.5, "set_gitignore": 0.5, "set_cli": 0.5})
    files = list(c09.FILES)
    ops = []
    for p in rng.sample(files, rng.randint(2, 5)):
        ops.append({"op": "write", "path": p, "content": c09._content(rng, p)})
    if verbose_world:
        ops.append({"op": "set_yml", "patterns": [], "verbose": True})
    ops.append({"op": "scan", "nonce": G.nonce(rng)})
    n_faults = 0
    for _ in range(rng.randint(4, 18)):
        r = rng.random()
        if r < 0.22 and n_faults < 3:
            n_faults += 1
            ops.append({"op": "scan", "nonce": G.nonce(rng),
                        "fault": {"kind": rng.choice(KINDS), "tick": rng.choice((0, 1, 2, 3, 40, 44, 80, 84, 85)) if rng.random() < 0.4
                                  else rng.randrange(0, 2600)}})
        elif r < 0.45 and n_faults < 3:
            n_faults += 1
            f = dict(rng.choice(SIMPLE_FAULTS))
            if "frac" in f:
                f["frac"] = rng.random()
            if f["op"] == "cache_flip":
                f["k"] = rng.randrange(0, 4000)
            ops.append(f)
        elif r < 0.5:
            ops.append({"op": "cache_mutate", "jpath": rng.choice((["codebase"], ["codebase", "files"], ["uuid"], ["root"], ["version"], ["codebase", "tree"], ["codebase", "totals"])),
                        "mutation": rng.choice(("delete_key", "kind:null", "kind:array", "kind:string", "kind:number"))})
        else:
            ops.append(c09.random_op(rng, files, weights))
    ops.append({"op": "scan", "nonce": G.nonce(rng)})
    ops.append({"op": "scan", "nonce": G.nonce(rng)})
    return {"property": "C10", "workload": "C10", "seed": R, "swarm": swarm, "ops": ops}
