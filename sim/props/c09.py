"""C09: cache-assisted scans equal fresh scans over any edit history.

Store-vs-model simulation: the store is the tree + .codelimit_cache across a
sequence of simulated processes; the model is a from-scratch scan of the same
tree (same entry point, no durable state).
"""
from __future__ import annotations

import itertools

from ..seams import stream
from ..corpus import EXT
from .. import gen as G

FILES = ["a.py", "b.js", "src/a.py", "src/c.ts", "src/deep/e.java", "lib/f.c", "lib/g.cpp", "K.cs",
         "tests/t.py", ".hid/x.py", "notes.txt", "src/m.py", "lib/b.js", "lib/h.h", "src/deep/i.hpp"]
WEIRD = ['we"ird.py', "back\\slash.py", "café.py", "sp ace.js", "cafe\u0301.py", "caf\udce9.py", "caf\udce8.py", "-dash.py", "files.py"]
DIR_MOVES = [("src", "pkg"), ("lib", "src/lib"), ("src/deep", "deep"), ("pkg", "src"), ("src", "tests")]
SHAPES = ("one2", "one16", "one31", "one61", "multi", "nested", "strings", "enc_latin1", "multi_ws", "empty", "one30",
          "big", "uni", "twins", "nocl", "bare31")
PATTERNS = ["src", "lib/", "*.js", "src/deep", "src/*", "a.py", "K.cs", "deep/", "*.ts", "lib/f.c", "pkg", "b.js", "lib/*"]
OTHER_VERSIONS = ["0.0.1", "0.18.0", "0.18.10", "9.9.9", "", "0.18.1 ", "<absent>", "<absent>"]


def _content(rng, path):
    lang = G.lang_of_path(path) or "py"
    return rng.choice(G.ids_for(lang, SHAPES))


_MODEL_ONLY = False
EXOTIC = ["!src/a.py", "!lib/f.c", "**/a.py", "src/**", "!src/deep/e.java", "/a.py", "?.cs", "!b.js", "lib/*", "!lib/g.cpp"]


def _patterns(rng):
    pats = rng.sample(PATTERNS, rng.randint(0, 3))
    if not _MODEL_ONLY and rng.random() < 0.2:
        # forms outside the C11 model (negation, **, ?, leading /): the cached-vs-fresh
        # differential needs no model; the C11 sub-oracle is skipped for such scans
        pats += rng.sample(EXOTIC, rng.randint(1, 3))
    return pats


def random_op(rng, files, weights):
    kinds = list(weights)
    k = rng.choices(kinds, [weights[x] for x in kinds])[0]
    n = G.nonce(rng)
    if k == "write":
        p = rng.choice(files)
        op = {"op": "write", "path": p, "content": _content(rng, p)}
        if rng.random() < 0.2:
            # a back-dated copy (cp -p, tar x, rsync -a): new content, old modification time
            op["mtime_delta"] = -rng.choice((2, 3600, 86400 * 30, 86400 * 800))
        return op
    if k == "delete":
        return {"op": "delete", "path": rng.choice(files + ["src", "lib", "src/deep"])}
    if k == "rename":
        if rng.random() < 0.35:
            a, b = rng.choice(DIR_MOVES)
            return {"op": "rename", "src": a, "dst": b}
        a = rng.choice(files)
        r0 = rng.random()
        if r0 < 0.2:
            # a rename that changes only letter case (file or one of its directories)
            parts = a.split("/")
            j = rng.randrange(len(parts))
            parts[j] = parts[j].swapcase() if parts[j].swapcase() != parts[j] else parts[j].upper()
            src = "/".join(a.split("/")[: j + 1])
            return {"op": "rename", "src": src, "dst": "/".join(parts[: j + 1])}
        if r0 < 0.28:
            # ... and back, or onto the lower-case spelling of a name that may exist in another case
            return {"op": "rename", "src": a.swapcase(), "dst": a}
        if rng.random() < 0.3:
            # same bytes under another language's extension
            stem = a.rsplit(".", 1)[0]
            b = stem + "_x" + rng.choice(list(EXT.values()))
        else:
            b = rng.choice(files)
        op = {"op": "rename", "src": a, "dst": b}
        if rng.random() < 0.3:
            op["overwrite"] = True   # mv a b over an existing b
        return op
    if k == "swap":
        a, b = rng.sample(files, 2)
        return {"op": "swap", "a": a, "b": b, "by_rename": rng.random() < 0.5}
    if k == "touch":
        return {"op": "touch", "path": rng.choice(files)}
    if k == "link":
        a, b = rng.sample(files, 2)
        return {"op": "link", "src": a, "dst": b.rsplit(".", 1)[0] + "_ln." + a.rsplit(".", 1)[-1] if "." in a else b + "_ln",
                "hard": rng.random() < 0.5}
    if k == "edit":
        # a small in-place edit anywhere in the file (often far from its start), same path
        kind = rng.choice(("dup_line", "lost_line", "swap_lines", "flip_byte"))
        # line index modulo the file's line count: small negative values = the last lines
        arg = rng.choice((-1, -2, -3, -5)) if rng.random() < 0.4 else rng.randrange(0, 400)
        if kind == "flip_byte":
            arg = [rng.randrange(0, 4000), rng.choice((0x20, 0x41, 0x7a))]
        return {"op": "corrupt", "path": rng.choice(files), "kind": kind, "arg": arg}
    if k == "set_yml":
        return {"op": "set_yml", "patterns": None if rng.random() < 0.2 else _patterns(rng),
                "verbose": rng.choice((None, None, True, False))}
    if k == "set_gitignore":
        return {"op": "set_gitignore", "patterns": None if rng.random() < 0.2 else _patterns(rng), "final_eol": rng.random() < 0.6}
    if k == "set_cli":
        return {"op": "set_cli", "patterns": _patterns(rng)}
    if k == "set_version":
        return {"op": "cache_set_version", "version": rng.choice(OTHER_VERSIONS), "marker": True}
    if k == "identity":
        return {"op": "cache_identity", "what": rng.choice(("checksum", "checksum_of", "path")), "index": rng.randrange(16)}
    if k == "cache_fault":
        r = rng.random()
        if r < 0.4:
            return {"op": "cache_delete", "what": rng.choice(("file", "markers", "dir", "CACHEDIR.TAG"))}
        if r < 0.7:
            return {"op": "cache_truncate", "frac": rng.random()}
        return {"op": "cache_replace", "kind": rng.choice(("empty", "garbage", "empty_obj", "list", "stale_tail"))}
    if k == "clock":
        return {"op": "advance_clock", "seconds": rng.choice((0, 1, 61, 86400, 86400 * 366, -3600, -86400 * 30))}
    if k == "scan":
        op = {"op": "scan", "nonce": n}
        if rng.random() < 0.3:
            op["spelling"] = rng.choice(("dot", "rel_parent", "abs", "dotdot", "abs_dotdot", "rel_outside", "trailing", "symlink", "symlink_abs", "symlink_dotdot"))
        if rng.random() < 0.1:
            op["verbose"] = True
        if rng.random() < 0.08:
            op["read_fault"] = {"n": rng.randrange(0, 14)}   # EIO on the n-th tree file the scan opens
        return op
    if k == "report":
        return {"op": "report", "fmt": rng.choice(("text", "markdown")), "nonce": n, "diff": rng.random() < 0.4}
    if k == "save_baseline":
        return {"op": "save_baseline", "version": rng.choice((None, None) + tuple(OTHER_VERSIONS))}
    if k == "findings":
        return {"op": "findings", "fmt": rng.choice(("text", "markdown")), "full": rng.random() < 0.5, "nonce": n}
    if k == "set_git":
        return {"op": "set_git", "scenario": rng.choice(("none", "not_a_repo", "ssh", "https_git", "https_plain", "detached", "no_remote", "other_host"))}
    if k == "set_env":
        return {"op": "set_env", "env": rng.choice(({}, {"GITHUB_REF": "refs/heads/feat/x"}, {"GITHUB_REF": "refs/tags/v1", "GITHUB_HEAD_REF": "pr-7"},
                                                    {"GITHUB_HEAD_REF": "topic"}))}
    if k == "set_spelling":
        return {"op": "set_spelling", "mode": rng.choice(("dot", "rel_parent", "abs", "dotdot"))}
    raise KeyError(k)


BASE_WEIGHTS = {"write": 6, "delete": 2, "rename": 3, "swap": 2, "touch": 1, "edit": 2, "link": 0.6, "set_yml": 1, "set_gitignore": 1,
                "set_cli": 1, "set_version": 1, "identity": 1.5, "cache_fault": 0.0, "clock": 1, "scan": 5,
                "report": 0.9, "findings": 0.7, "save_baseline": 0.6, "set_git": 1.0, "set_spelling": 0.4, "set_env": 0.6}

# ---------------------------------------------------------------------------
# small-scope enumeration (thorough tier): all histories of length <= 3
# ---------------------------------------------------------------------------
S_PATHS = ["a.py", "src/a.py", "b.py"]
S_CONTENTS = ["py.one2", "py.one31", "py.multi"]


def small_ops():
    ops = []
    for p in S_PATHS:
        for c in S_CONTENTS:
            ops.append({"op": "write", "path": p, "content": c})
        ops.append({"op": "delete", "path": p})
        ops.append({"op": "touch", "path": p})
    for a, b in itertools.permutations(S_PATHS, 2):
        ops.append({"op": "rename", "src": a, "dst": b})
    for a, b in itertools.combinations(S_PATHS, 2):
        ops.append({"op": "swap", "a": a, "b": b})
    ops.append({"op": "set_cli", "patterns": ["src"]})
    ops.append({"op": "set_cli", "patterns": []})
    ops.append({"op": "scan"})
    return ops


_SMALL = None


def small_count():
    n = len(small_ops())
    return n + n * n + n * n * n


def small_history(j):
    global _SMALL
    if _SMALL is None:
        _SMALL = small_ops()
    n = len(_SMALL)
    if j < n:
        idxs = [j]
    elif j < n + n * n:
        j -= n
        idxs = [j // n, j % n]
    else:
        j -= n + n * n
        idxs = [j // (n * n), (j // n) % n, j % n]
    return [dict(_SMALL[k]) for k in idxs]


def gen(i, R, tier, model_only_patterns=False):
    global _MODEL_ONLY
    _MODEL_ONLY = model_only_patterns
    rng = stream(R, "world")
    sw = stream(R, "swarm")
    if tier == "thorough" and i < small_count():
        ops = [{"op": "write", "path": "a.py", "content": "py.one2"},
               {"op": "write", "path": "src/a.py", "content": "py.one31"},
               {"op": "scan", "nonce": G.nonce(rng)}]
        for op in small_history(i):
            if op["op"] == "scan":
                op["nonce"] = G.nonce(rng)
            ops.append(op)
        ops += [{"op": "scan", "nonce": G.nonce(rng)}, {"op": "scan", "nonce": G.nonce(rng)}]
        swarm = {"set_policy": "mixed", "walk_policy": "shuffled", "mode": "small_scope", "track_states": True}
        return {"property": "C09", "workload": "C09", "seed": R, "swarm": swarm, "ops": ops}
    swarm = {
        "set_policy": sw.choice(("mixed", "shuffled", "insertion", "reversed")),
        "walk_policy": sw.choice(("shuffled", "shuffled", "reversed", "sorted")),
        "dot_root": sw.random() < 0.12,
        "weird_names": sw.random() < 0.25,
        "cache_faults": sw.random() < 0.2,
        "mode": "random",
    }
    weights = dict(BASE_WEIGHTS)
    # swarm: knock out / boost op kinds per run
    for k in list(weights):
        r = sw.random()
        if k in ("write", "scan"):
            continue
        if r < 0.2:
            weights[k] = 0.0
        elif r > 0.85:
            weights[k] *= 3
    if swarm["cache_faults"]:
        weights["cache_fault"] = 1.5
    files = list(FILES) + (list(WEIRD) if swarm["weird_names"] else [])
    ops = []
    for p in rng.sample(files, rng.randint(2, 6)):
        ops.append({"op": "write", "path": p, "content": _content(rng, p)})
    if swarm["weird_names"] and rng.random() < 0.4:
        # two names in one folder that differ only in a byte that is not valid UTF-8
        for p in ("caf\udce9.py", "caf\udce8.py"):
            ops.append({"op": "write", "path": p, "content": _content(rng, p)})
    if rng.random() < 0.5:
        ops.append({"op": "scan", "nonce": G.nonce(rng)})
    for _ in range(rng.randint(4, 25)):
        ops.append(random_op(rng, files, weights))
    ops.append({"op": "scan", "nonce": G.nonce(rng)})
    ops.append({"op": "scan", "nonce": G.nonce(rng)})
    return {"property": "C09", "workload": "C09", "seed": R, "swarm": swarm, "ops": ops}
