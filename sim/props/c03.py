"""C03 (storage-fault half): no stored-file damage, and no way of naming the
file, makes scan or check fail or hang.

(a) analysis sweeps: enumerate storage faults of a corpus file and analyse each
    faulted text with the lex + scan_file pair both entry points share;
(b) full worlds: a faulted file among healthy neighbours, then the CLI scan and
    check by every way of naming it, from inside and outside the tree.
"""
from __future__ import annotations

import hashlib

from ..seams import CTX, stream
from ..corpus import CONTENTS, IDS, LEXER_NAME, EXT, LANGS, BY_LANG
from .. import gen as G
from .. import faults as F
from .. import oracles as O
from ..executor import violation
from . import c06

SMALL = 600
BYTE_KINDS = ("torn_prefix", "lost_head")
LINE_KINDS = ("lost_line", "dup_line", "swap_lines")
MISC = [("reencode", "latin-1"), ("reencode", "utf-16"), ("reencode", "utf-8-sig"), ("reencode", "utf-16-le"),
        ("crlf", None), ("empty", None)]


def token_boundaries(lexer_name, b: bytes):
    """Byte offsets of token boundaries +-1 (from a Pygments pass in the harness)."""
    from pygments.lexers import get_lexer_by_name
    text = c06.decode(b)
    offs = set()
    try:
        for pos, _tt, val in get_lexer_by_name(lexer_name).get_tokens_unprocessed(text):
            bo = len(text[:pos].encode("utf-8", "replace"))
            for d in (-1, 0, 1):
                if 0 <= bo + d <= len(b):
                    offs.add(bo + d)
    except Exception:  # noqa: BLE001
        pass
    offs.update((0, len(b)))
    return sorted(offs)


def sweep_args(op, b, lexer_name):
    kind = op["kind"]
    rng = stream(op["nonce"], "sweep")
    if op.get("args") is not None:
        return list(op["args"])
    if kind in BYTE_KINDS or kind == "zero_tail":
        if op.get("mode") == "all" or len(b) <= SMALL and op.get("mode") != "boundaries":
            args = list(range(0, len(b) + 1))
        else:
            args = token_boundaries(lexer_name, b)
            extra = [rng.randrange(0, len(b) + 1) for _ in range(24)] if b else []
            args = sorted(set(args) | set(extra))
    elif kind in LINE_KINDS:
        args = list(range(len(b.splitlines())))
    elif kind == "flip_byte":
        n = len(b)
        ks = sorted(set(rng.randrange(n) for _ in range(op.get("n", 24)))) if n else []
        args = [[k, v] for k in ks for v in F.FLIP_VALUES]
    elif kind == "misc":
        args = list(range(len(MISC)))
    else:
        raise KeyError(kind)
    parts, part = op.get("parts", 1), op.get("part", 0)
    args = [a for j, a in enumerate(args) if j % parts == part]
    cap = op.get("cap")
    if cap and len(args) > cap:
        # quick tier: a PRNG sample of the stratum (first and last elements always kept)
        keep = sorted(rng.sample(range(1, len(args) - 1), cap - 2))
        args = [args[0]] + [args[j] for j in keep] + [args[-1]]
    return args


def do_analysis_sweep(ex, idx, op):
    w = ex.world
    cid, lexer_name, kind = op["content"], op["lexer"], op["kind"]
    b = CONTENTS[cid]["bytes"]
    args = sweep_args(op, b, lexer_name)
    seen = set()
    n_done = 0
    saved_budget = w.budget
    w.budget = max(min(w.budget, 1_500_000), 8 * CONTENTS[cid].get("steps", 0))   # one text
    for a in args:
        if kind == "misc":
            k2, a2 = MISC[a]
            nb = F.corrupt_bytes(b, k2, a2)
        else:
            nb = F.corrupt_bytes(b, kind, a)
        h = hashlib.md5(nb).hexdigest()
        if h in seen:
            continue
        seen.add(h)
        text = c06.decode(nb)
        w.text_budget = 250 * len(nb)
        box = {}

        def fn():
            box["r"] = c06.analyse(lexer_name, text)
        obs = w.run_process(fn, "%s/%s" % (op["nonce"], a), w.base, set_policy=ex.set_policy, walk_policy=ex.walk_policy)
        CTX.counters["corrupt_" + kind] += 1
        n_done += 1
        if nb != b:
            ex.subcase_digests.add(O.digest([lexer_name, h]))
        if obs["outcome"] != "ok":
            ex.add(violation("C03", "analysis_total", "%s text of %s after %s(%s) -> %s %s %s" % (
                lexer_name, cid, kind, a, obs["outcome"], obs.get("exc", ""), obs.get("msg", "")), idx, obs,
                narrow={"args": [a]}, lexer=lexer_name))
            if len(ex.viol) > 10 or sum(1 for v in ex.viol if v.get("outcome") == "hang") >= 2:
                break
        else:
            ex.probe("c03_analyses_ok")
            if box["r"]:
                ex.probe("c03_analyses_with_functions")
    w.budget = saved_budget
    w.text_budget = 0
    ex.subcases += n_done
    return {"outcome": "ok", "result": "%d analyses" % n_done}


# ----------------------------------------------------------------------------
def sweep_plan(tier):
    cases = []
    for cid in IDS:
        lang = CONTENTS[cid]["lang"]
        lexer = LEXER_NAME[lang]
        n = len(CONTENTS[cid]["bytes"])
        if n == 0:
            continue
        if CONTENTS[cid].get("steps"):
            # seconds per analysis: only a handful of faulted variants
            cases.append({"content": cid, "lexer": lexer, "kind": "misc"})
            cases.append({"content": cid, "lexer": lexer, "kind": "torn_prefix", "mode": "boundaries", "cap": 4 if tier == "quick" else 40})
            continue
        if tier == "quick":
            # token-boundary stratum, one case per content for both byte kinds
            cases.append({"content": cid, "lexer": lexer, "kind": "torn_prefix", "mode": "boundaries", "cap": 160 if n < 8192 else 16})
            if cid.split(".", 1)[1] in ("multi2", "nested", "strings", "mlhdr", "half", "unbal", "arrowparam", "arrowmix", "arrowcall", "async", "cont", "contdef", "record", "ns", "prop", "macro", "twins", "uni", "nestone", "iface", "fnprop"):
                cases.append({"content": cid, "lexer": lexer, "kind": "lost_head", "mode": "boundaries", "cap": 160})
                cases.append({"content": cid, "lexer": lexer, "kind": "lost_line"})
                cases.append({"content": cid, "lexer": lexer, "kind": "swap_lines"})
                cases.append({"content": cid, "lexer": lexer, "kind": "misc"})
        elif n > 8192:
            # padded > 64 KiB texts: token boundaries (the padding is a handful of tokens) + sample
            for kind in BYTE_KINDS:
                cases.append({"content": cid, "lexer": lexer, "kind": kind, "mode": "boundaries", "cap": 600})
            for kind in LINE_KINDS + ("misc",):
                cases.append({"content": cid, "lexer": lexer, "kind": kind, "cap": 200})
        else:
            parts = max(1, n // 300)
            for kind in BYTE_KINDS:
                for part in range(parts):
                    cases.append({"content": cid, "lexer": lexer, "kind": kind, "part": part, "parts": parts})
            if n <= 8192:
                for kind in LINE_KINDS + ("flip_byte", "zero_tail", "misc"):
                    cases.append({"content": cid, "lexer": lexer, "kind": kind})
    if tier != "quick":
        # the same texts under two other languages' lexers (a file stored under the wrong
        # extension): malformed for that language in ways no truncation of its own texts gives
        for lexer, cid in c06.pairs():
            if lexer != LEXER_NAME[CONTENTS[cid]["lang"]]:
                for kind in ("torn_prefix", "lost_line", "misc"):
                    cases.append({"content": cid, "lexer": lexer, "kind": kind, "mode": "boundaries", "cap": 400})
    # interleave languages, so that a time-boxed prefix of the plan covers all seven
    cases.sort(key=lambda c: (c["content"].split(".", 1)[1], c["kind"], c["content"].split(".", 1)[0], c["lexer"], c.get("part", 0)))
    # the few expensive cases first and far apart, so that they start early and never share a batch
    heavy = [c for c in cases if CONTENTS[c["content"]].get("steps")]
    rest = [c for c in cases if not CONTENTS[c["content"]].get("steps")]
    gap = max(1, len(rest) // max(1, len(heavy)) // 3)
    out = []
    for j, h in enumerate(heavy):
        out.append(h)
        out.extend(rest[j * gap:(j + 1) * gap])
    out.extend(rest[len(heavy) * gap:])
    return out


_PLAN = {}

WORLD_FAULTS = ("torn_prefix", "lost_head", "lost_line", "dup_line", "swap_lines", "flip_byte", "zero_tail",
                "reencode", "crlf", "empty", "none")


def gen_world(i, R, rng, sw):
    swarm = {"set_policy": sw.choice(("mixed", "insertion")), "walk_policy": sw.choice(("shuffled", "sorted", "reversed")),
        "dot_root": sw.random() < 0.12,
             "mode": "world"}
    ops = []
    neighbours = {}
    for _ in range(rng.randint(0, 3)):
        lang = rng.choice(LANGS)
        p = G.new_path(rng, lang, dirs=["", "src", "lib", "src/deep"])
        if p not in neighbours:
            neighbours[p] = G.pick_content(rng, lang, 0.0, 0.3)
    for p, c in neighbours.items():
        ops.append({"op": "write", "path": p, "content": c})
    if neighbours:
        ops.append({"op": "scan", "nonce": G.nonce(rng), "baseline": True})
        ops.append({"op": "cache_delete", "what": "dir"})
    lang = rng.choice(LANGS)
    cid = rng.choice(G.ids_for(lang))
    heavy = [h for h in G.HEAVY if h.startswith(lang + ".")]
    is_heavy = bool(heavy) and rng.random() < 0.05
    if is_heavy:
        cid = rng.choice(heavy)          # ~1000 nested function definitions: seconds per analysis
    d = rng.choice(["", "src", "lib/in/ner", "src/deep"])
    stem = "victim" if rng.random() < 0.85 else rng.choice(("vic tim", "victim\udce9", "vi\u0301ctim", "-victim", "files"))
    odd_path = rng.random() < 0.08
    if odd_path:
        # brackets, spaces: characters that mean something to whatever prints the path; keep the
        # text long enough for check to have something to print about it
        d, stem = rng.choice((("gen[", "v2]"), ("pages/[id]", "view"), ("a b", "c[d]e"), ("gen[", "v2]")))
        cid = rng.choice(G.ids_for(lang, G.LONG_SHAPES))
    target = (d + "/" if d else "") + stem + EXT[lang]
    if target in neighbours:
        target = "victim2" + EXT[lang]
    ops.append({"op": "write", "path": target, "content": cid})
    n = len(CONTENTS[cid]["bytes"])
    is_heavy = is_heavy or n > 16384      # > 64 KiB texts: up to 12 s per process once re-encoded
    kind = rng.choice(WORLD_FAULTS) if not odd_path else rng.choice(("none", "crlf", "dup_line", "reencode"))
    if kind in ("torn_prefix", "lost_head", "zero_tail"):
        arg = rng.randrange(0, n + 1) if n else 0
    elif kind in LINE_KINDS:
        arg = rng.randrange(0, 80)
    elif kind == "flip_byte":
        arg = [rng.randrange(max(1, n)), rng.choice(F.FLIP_VALUES)]
    elif kind == "reencode":
        arg = rng.choice(("latin-1", "utf-16", "utf-8-sig", "utf-16-le"))
    else:
        arg = None
    if kind != "none":
        ops.append({"op": "corrupt", "path": target, "kind": kind, "arg": arg})
        if rng.random() < 0.25:
            k2 = rng.choice(("flip_byte", "lost_line", "torn_prefix"))
            a2 = rng.randrange(0, max(1, n))
            ops.append({"op": "corrupt", "path": target, "kind": k2,
                        "arg": [a2, rng.choice(F.FLIP_VALUES)] if k2 == "flip_byte" else a2})
    if rng.random() < 0.2:
        ops.append({"op": "set_yml", "patterns": [], "verbose": True})
    ops.append({"op": "scan", "nonce": G.nonce(rng), "spelling": rng.choice(("dot", "abs", "rel_parent", "dotdot", "rel_outside", "symlink")),
                "target": target, "verbose": rng.random() < 0.25})
    if rng.random() < 0.15:
        # what an interrupted or older scan left in the cache directory must not matter to check
        ops.append(rng.choice(({"op": "cache_truncate", "frac": rng.random()}, {"op": "cache_replace", "kind": "garbage"},
                               {"op": "cache_replace", "kind": "empty"}, {"op": "cache_replace", "kind": "nested_wrong"},
                               {"op": "cache_hibit", "field": "unit_name", "nth": 0})))
    parent = target.rsplit("/", 1)[0] if "/" in target else "."
    top = target.split("/")[0] if "/" in target else "."
    checks = [
        {"args": [target], "cwd": "root"},
        {"args": [parent], "cwd": "root"},
        {"args": ["."], "cwd": "root"},
        {"args": ["<ROOT>/" + target], "cwd": "root"},
        {"args": ["<ROOT>" if parent == "." else "<ROOT>/" + parent], "cwd": "root"},
        {"args": ["<ROOT>/" + target], "cwd": "outside"},
        {"args": ["<ROOT>" if parent == "." else "<ROOT>/" + parent], "cwd": "outside"},
        {"args": ["<ROOT>"], "cwd": "outside"},
        {"args": ["../root/" + target], "cwd": "outside"},
        {"args": ["../root" if parent == "." else "../root/" + parent], "cwd": "outside"},
        {"args": ["root/" + target], "cwd": "base"},
        {"args": ["root"], "cwd": "base"},
    ]
    if "/" in target:
        checks.append({"args": [target.split("/", 1)[1]], "cwd": "sub:" + top})
        checks.append({"args": ["."], "cwd": "sub:" + top})
        checks.append({"args": [".."], "cwd": "sub:" + top})
    for c in rng.sample(checks, rng.randint(2, 3) if is_heavy else rng.randint(4, len(checks))):
        ops.append(dict(c, op="check", quiet=rng.random() < 0.3, nonce=G.nonce(rng)))
    return {"property": "C03", "workload": "C03", "seed": R, "swarm": swarm, "ops": ops}


def gen(i, R, tier):
    rng = stream(R, "world")
    sw = stream(R, "swarm")
    if tier not in _PLAN:
        _PLAN[tier] = sweep_plan(tier)
    P = _PLAN[tier]
    # interleave: even cases = sweeps (while any are left), odd = full worlds
    if i % 2 == 0 and i // 2 < len(P):
        a = dict(P[i // 2])
        a.update({"op": "analysis_sweep", "nonce": G.nonce(rng)})
        swarm = {"set_policy": sw.choice(("mixed", "insertion", "shuffled")), "walk_policy": "sorted", "mode": "sweep",
                 "track_states": False}
        return {"property": "C03", "workload": "C03", "seed": R, "swarm": swarm, "ops": [a]}
    return gen_world(i, R, rng, sw)
