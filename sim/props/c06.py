"""C06: analysis is deterministic, order-independent and isolated per file.

The schedule the simulator owns: set iteration order (SimSet), real hash seed
(per worker interpreter), directory listing order, history of analyses in the
same process, clock and uuid values.
"""
from __future__ import annotations

import hashlib
import json
import os
import subprocess
import sys

from ..seams import CTX, stream
from ..corpus import CONTENTS, IDS, LEXER_NAME, LANGS, BY_LANG, EXT
from .. import gen as G
from .. import oracles as O
from ..executor import violation

CROSS_SHAPES = ("one31", "multi", "nested", "unbal", "strings", "half")


def pairs():
    """(lexer name, content id) pairs of the C06 universe: every content under
    its own language, plus a sample under two other languages (texts that are
    malformed for that language and abort matching midway)."""
    out = []
    for cid in IDS:
        lang = CONTENTS[cid]["lang"]
        out.append((LEXER_NAME[lang], cid))
        shape = cid.split(".", 1)[1]
        if shape in CROSS_SHAPES:
            k = LANGS.index(lang)
            for d in (1, 3):
                out.append((LEXER_NAME[LANGS[(k + d) % len(LANGS)]], cid))
    return out


def decode(b: bytes) -> str:
    """What a text-mode read of these bytes yields: UTF-8 with Latin-1 fallback (the scanner's
    documented behaviour under a UTF-8 locale) and universal-newline translation."""
    try:
        t = b.decode("utf-8")
    except UnicodeDecodeError:
        t = b.decode("latin-1")
    return t.replace("\r\n", "\n").replace("\r", "\n")


def analyse(lexer_name, text):
    from pygments.lexers import get_lexer_by_name
    from codelimit.common.lexer_utils import lex
    from codelimit.common.Scanner import scan_file
    from codelimit.languages import Languages
    lexer = get_lexer_by_name(lexer_name)
    tokens = lex(lexer, text, False)
    ms = scan_file(tokens, Languages.by_name[lexer_name])
    return [[m.unit_name, m.start.line, m.start.column, m.end.line, m.end.column, m.value] for m in ms]


def compute_reference_main(out_path):
    """Runs in a pristine interpreter (no seams, builtin set, PYTHONHASHSEED=0)."""
    table = {}
    for lexer_name, cid in pairs():
        try:
            table["%s|%s" % (lexer_name, cid)] = analyse(lexer_name, decode(CONTENTS[cid]["bytes"]))
        except Exception as e:  # noqa: BLE001
            table["%s|%s" % (lexer_name, cid)] = {"exc": type(e).__name__}
    with open(out_path, "w") as f:
        json.dump(table, f)


def reference_table(path=None):
    """Compute the reference table in a fresh interpreter; returns the dict."""
    import tempfile
    from ..world import scratch_parent
    own = path is None
    if own:
        fd, path = tempfile.mkstemp(prefix="clsim-ref-", suffix=".json", dir=scratch_parent())
        os.close(fd)
    env = dict(os.environ)
    env["PYTHONHASHSEED"] = "0"
    env["PYTHONDONTWRITEBYTECODE"] = "1"
    here = os.path.dirname(os.path.dirname(os.path.dirname(os.path.abspath(__file__))))
    r = subprocess.run([sys.executable, os.path.join(here, "run.py"), "--c06-ref", path], env=env,
                       capture_output=True, text=True, timeout=300)
    if r.returncode != 0:
        raise RuntimeError("reference table computation failed: %s" % r.stderr[-2000:])
    with open(path) as f:
        table = json.load(f)
    if own:
        os.unlink(path)
    return table


_MD5 = None


def md5_to_cid():
    global _MD5
    if _MD5 is None:
        _MD5 = {}
        for cid in IDS:
            for h in O.checksums_of(CONTENTS[cid]["bytes"]):
                _MD5.setdefault(h, []).append(cid)
    return _MD5


def cid_for(ex, checksum, language):
    """Content id stored under this checksum whose (language, id) pair is in the
    reference table (several corpus texts, e.g. the empty file, are identical
    across languages)."""
    cids = md5_to_cid().get(checksum)
    if not cids:
        return None
    for cid in cids:
        if ex.ref_table is not None and "%s|%s" % (language, cid) in ex.ref_table:
            return cid
    return cids[0]


def _cmp(ex, idx, key, got, where):
    table = ex.ref_table
    if table is None or key not in table:
        ex.probe("c06_no_reference")
        return
    want = table[key]
    if got != want:
        hist = [h for h in ex.lib_history[-6:]]
        ex.add(violation("C06", "analysis_equals_reference",
                         "%s: %s gave %s, reference (alone, fresh interpreter, hash seed 0) %s; previous analyses: %s"
                         % (where, key, O._short(got), O._short(want), hist), idx))
    ex.probe("c06_compared")


def do_analyze(ex, idx, op):
    w = ex.world
    lexer_name, cid = op["lexer"], op["content"]
    text = decode(CONTENTS[cid]["bytes"])
    box = {}

    def fn():
        box["r"] = analyse(lexer_name, text)
    saved = w.extra_budget
    w.extra_budget += 8 * CONTENTS[cid].get("steps", 0) + 250 * len(CONTENTS[cid]["bytes"])
    obs = w.run_process(fn, op["nonce"], w.base, set_policy=ex.set_policy, walk_policy=ex.walk_policy,
                        new_process=False)
    w.extra_budget = saved
    if obs["outcome"] == "ok":
        got = box["r"]
    elif obs["outcome"] == "internal_error":
        got = {"exc": obs["exc"]}
    else:
        got = {"outcome": obs["outcome"]}
    key = "%s|%s" % (lexer_name, cid)
    _cmp(ex, idx, key, got, "analyze op")
    if ex.lib_history:
        ex.cover["transitions"].add(("pair", ex.lib_history[-1], key))
    ex.lib_history.append(key)
    obs["result"] = O.digest(got)
    shape = cid.split(".", 1)[1]
    if shape in ("unbal", "half", "closers") or "arrow" in shape:
        ex.probe("c06_malformed_predecessor")
    return obs


def do_scan_inproc(ex, idx, op):
    """Library-mode scan of the world tree in the long-lived process."""
    from pathlib import Path
    w = ex.world
    box = {}

    use_live = bool(op.get("live"))

    def fn():
        from codelimit.common import Scanner
        # library use: scan_path, or scan_codebase (the same walk plus the live totals display)
        box["cb"] = Scanner.scan_codebase(Path(w.root)) if use_live else Scanner.scan_path(Path(w.root))
    obs = w.run_process(fn, op["nonce"], w.base, set_policy=ex.set_policy, walk_policy=ex.walk_policy,
                        new_process=False)
    if obs["outcome"] != "ok":
        ex.probe("inconclusive_scan_failed")
        return obs
    # isolation across scans in one process: exactly the files the (history-free)
    # reference model selects for the current tree and root .gitignore
    from . import common
    pats = common.current_patterns(w)
    if all(O.model_pattern_class(p) is not None for p in pats):
        want = common.model_files(w)
        got_files = set(box["cb"].files)
        if got_files != set(want):
            ex.add(violation("C06", "scan_independent_of_earlier_scans",
                             "in-process scan #%d of this run analysed %s but a history-free scan analyses %s (only in scan: %s; missing: %s)"
                             % (ex.cover["proc_ops"].get("scan_inproc", 0) + 1, len(got_files), len(want),
                                sorted(got_files - set(want)), sorted(set(want) - got_files)), idx))
        ex.probe("c06_inproc_fileset_checked")
    if use_live:
        tot = {k: {"files": v.files, "functions": v.functions, "lines_of_code": v.loc,
                   "hard_to_maintain": v.hard_to_maintain, "unmaintainable": v.unmaintainable}
               for k, v in box["cb"].totals.items()}
        common.grand_totals_c07(ex, idx, obs, tot, "in-process scan_codebase #%d of this run" % (ex.cover["proc_ops"].get("scan_inproc", 0) + 1))
    from ..world import read_bytes
    stale = [path for path, e in box["cb"].files.items()
             if os.path.isfile(w.p(path)) and e.checksum() not in O.checksums_of(read_bytes(w.p(path)))]
    if stale:
        ex.add(violation("C06", "inproc_scan_reads_current_bytes",
                         "in-process scan #%d of this run reports %s with a checksum that is no digest of the bytes now on disk (state kept from an earlier scan)"
                         % (ex.cover["proc_ops"].get("scan_inproc", 0) + 1, stale), idx))
    res = {}
    for path, e in box["cb"].files.items():
        got = [[m.unit_name, m.start.line, m.start.column, m.end.line, m.end.column, m.value] for m in e.measurements()]
        res[path] = got
        cid = cid_for(ex, e.checksum(), e.language)
        if cid is None:
            continue
        _cmp(ex, idx, "%s|%s" % (e.language, cid), got, "in-process tree scan, file %s" % path)
        ex.lib_history.append("%s|%s" % (e.language, cid))
    obs["result"] = O.digest(res)
    return obs


def check_entries(ex, idx, C):
    for path, e in C["codebase"]["files"].items():
        cid = cid_for(ex, e.get("checksum"), e.get("language"))
        if cid is None:
            continue
        got = [[m["unit_name"], m["start"]["line"], m["start"]["column"], m["end"]["line"], m["end"]["column"], m["value"]]
               for m in e["measurements"]]
        _cmp(ex, idx, "%s|%s" % (e["language"], cid), got, "CLI scan, file %s" % path)


# ----------------------------------------------------------------------------
def gen(i, R, tier, force_mode=None):
    rng = stream(R, "world")
    sw = stream(R, "swarm")
    swarm = {
        "set_policy": sw.choice(("mixed", "mixed", "shuffled", "reversed", "rotate", "insertion")),
        "walk_policy": sw.choice(("shuffled", "shuffled", "reversed", "sorted")),
        "dot_root": sw.random() < 0.12,
        "mode": sw.choice(("library", "library", "process")),
        "builtin_set": sw.random() < 0.1,
    }
    if force_mode:
        swarm["mode"] = force_mode
    ops = []
    P = [p for p in pairs() if p[1] not in G.HEAVY]       # (pairs() itself keeps them: the reference table knows them)
    heavy_pairs = [p for p in pairs() if p[1] in G.HEAVY]
    malformed = [p for p in P if p[1].split(".", 1)[1] in ("unbal", "half", "closers", "arrowparam", "arrowmix", "arrowcall", "deflast")]
    if swarm["mode"] == "library" and rng.random() < 0.12:
        # the smallest tree: one supported file, rewritten between scans of one process
        p = G.new_path(rng)
        placed = {p: G.pick_content(rng, G.lang_of_path(p) or "py", 0.1, 0.3)}
        tree_ops = [{"op": "write", "path": p, "content": placed[p]}, {"op": "scan_inproc", "nonce": G.nonce(rng)}]
        for _ in range(rng.randint(1, 3)):
            tree_ops.append({"op": "write", "path": p, "content": G.pick_content(rng, G.lang_of_path(p) or "py", 0.1, 0.3)})
            tree_ops.append({"op": "scan_inproc", "nonce": G.nonce(rng), "live": rng.random() < 0.5})
    else:
        tree_ops, placed = G.base_tree(rng, 3, 10, p_bad=0.2, extras=0.3, weird=0.15)
    ops += tree_ops
    if rng.random() < 0.35:
        # configuration files below the root must have no effect, in whatever order directories are visited
        for d in rng.sample(G.DISTRACTOR_DIRS + ["src/deep", "x"], rng.randint(1, 3)):
            if rng.random() < 0.7:
                ops.append({"op": "set_gitignore", "patterns": rng.sample(["*.py", "*.js", "*", "a.py", "K.cs", "lib", "src", "*.c", "m.*"], rng.randint(1, 3)), "where": d})
            else:
                ops.append({"op": "set_yml", "patterns": ["*.js", "src", "lib"][: rng.randint(1, 3)], "where": d})
    if swarm["mode"] == "library":
        n = rng.randint(20, 60)
        focus = rng.sample(P, min(len(P), rng.randint(3, 12)))
        if heavy_pairs and rng.random() < 0.015:
            lexer, cid = rng.choice(heavy_pairs)      # one exceptionally expensive text, once or twice
            for _ in range(rng.randint(1, 2)):
                ops.append({"op": "analyze", "lexer": lexer, "content": cid, "nonce": G.nonce(rng)})
        for j in range(n):
            r = rng.random()
            if r < 0.25:
                lexer, cid = rng.choice(malformed)
            elif r < 0.65:
                lexer, cid = rng.choice(focus)
            else:
                lexer, cid = rng.choice(P)
            ops.append({"op": "analyze", "lexer": lexer, "content": cid, "nonce": G.nonce(rng)})
            r2 = rng.random()
            if r2 < 0.05:
                ops.append({"op": "scan_inproc", "nonce": G.nonce(rng), "live": rng.random() < 0.5})
            elif r2 < 0.09:
                # a scan of the same tree under another root .gitignore, then without it:
                # nothing of the first scan's configuration may survive into the second
                from . import c11
                pats = list(dict.fromkeys(c11.pattern(rng, placed) for _ in range(rng.randint(1, 3))))
                ops.append({"op": "set_gitignore", "patterns": pats})
                ops.append({"op": "scan_inproc", "nonce": G.nonce(rng)})
                ops.append({"op": "set_gitignore", "patterns": None})
                ops.append({"op": "scan_inproc", "nonce": G.nonce(rng)})
            elif r2 < 0.11 and placed:
                p = rng.choice(sorted(placed))
                ops.append({"op": "delete", "path": p})
                ops.append({"op": "scan_inproc", "nonce": G.nonce(rng)})
            elif r2 < 0.17 and placed:
                # the command functions themselves called repeatedly by one long-lived process (an
                # editor plug-in, a server): scan under a .codelimit.yml, scan without it, check twice
                from . import c11
                pats = list(dict.fromkeys(c11.pattern(rng, placed) for _ in range(rng.randint(1, 2))))
                seq = [{"op": "set_yml", "patterns": pats}, {"op": "scan", "nonce": G.nonce(rng), "inproc": True},
                       {"op": "set_yml", "patterns": None}, {"op": "scan", "nonce": G.nonce(rng), "inproc": True},
                       {"op": "cache_delete", "what": "dir"}]
                files_ = [q for q in sorted(placed) if not any(x.startswith(".") for x in q.split("/"))]
                for q in rng.sample(files_, min(len(files_), 2)):
                    seq.append({"op": "check", "args": [q], "cwd": "root", "quiet": False, "nonce": G.nonce(rng), "inproc": True})
                seq.append({"op": "check", "args": ["."], "cwd": "root", "quiet": False, "nonce": G.nonce(rng), "inproc": True})
                ops += seq if rng.random() < 0.7 else seq[::-1][:4][::-1]
            elif r2 < 0.20 and placed:
                # the same path gets new bytes between two scans of one process
                p = rng.choice(sorted(placed))
                ops.append({"op": "scan_inproc", "nonce": G.nonce(rng)})
                ops.append({"op": "write", "path": p, "content": G.pick_content(rng, G.lang_of_path(p) or "py", 0.1, 0.3)})
                ops.append({"op": "scan_inproc", "nonce": G.nonce(rng)})
        ops.append({"op": "scan_inproc", "nonce": G.nonce(rng), "live": True})
        ops.append({"op": "scan_inproc", "nonce": G.nonce(rng), "live": True})
    else:
        ops.append({"op": "set_git", "scenario": rng.choice(("none", "ssh", "https_git", "not_a_repo"))})
        if rng.random() < 0.4:
            # overlapping exclude / re-include patterns: the effective order of the patterns matters,
            # so it must not come from a hash-ordered container
            from . import c11, c12
            pats = [c11.pattern(rng, placed) for _ in range(rng.randint(1, 2))] + c12.exotic(rng, placed)
            ops.append({"op": rng.choice(("set_gitignore", "set_yml", "set_cli")), "patterns": pats})
            if rng.random() < 0.5:
                ops.append({"op": rng.choice(("set_gitignore", "set_yml", "set_cli")), "patterns": c12.exotic(rng, placed)})
        for j in range(rng.randint(2, 4)):
            ops.append({"op": "advance_clock", "seconds": rng.choice((0, 1, 59, 3600, 86400 * 400, -86400))})
            ops.append({"op": "scan", "nonce": G.nonce(rng), "spelling": rng.choice(("dot", "abs", "rel_parent", "symlink", "dotdot"))})
            ops.append({"op": "cache_delete", "what": "dir"})
            if rng.random() < 0.5:
                lexer, cid = rng.choice(malformed)
                ops.append({"op": "analyze", "lexer": lexer, "content": cid, "nonce": G.nonce(rng)})
    return {"property": "C06", "workload": "C06", "seed": R, "swarm": swarm, "ops": ops}
