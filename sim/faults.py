"""Storage-fault models: what a storage layer can do to a stored source file
and to the durable cache."""
from __future__ import annotations

import copy

FLIP_VALUES = (0x00, 0x80, 0x81, 0x9D, 0xE9, 0xFF)   # NUL, C1 controls (undefined in cp1252), Latin-1 letter, never-valid UTF-8


def _lines(b: bytes):
    return b.splitlines(keepends=True)


def corrupt_bytes(b: bytes, kind: str, arg=None) -> bytes:
    n = len(b)
    if kind == "torn_prefix":      # write cut at byte k
        return b[: max(0, min(n, int(arg)))]
    if kind == "lost_head":        # only the suffix from byte k survived
        return b[max(0, min(n, int(arg))):]
    if kind == "zero_tail":        # length kept, tail zeroed (delayed allocation)
        k = max(0, min(n, int(arg)))
        return b[:k] + b"\0" * (n - k)
    if kind in ("lost_line", "dup_line", "swap_lines"):
        ls = _lines(b)
        if not ls:
            return b
        i = int(arg) % len(ls)
        if kind == "lost_line":
            del ls[i]
        elif kind == "dup_line":
            ls.insert(i, ls[i])
        else:
            j = (i + 1) % len(ls)
            ls[i], ls[j] = ls[j], ls[i]
        return b"".join(ls)
    if kind == "flip_byte":
        if n == 0:
            return b
        k, v = arg
        k = int(k) % n
        return b[:k] + bytes([int(v)]) + b[k + 1:]
    if kind == "reencode":
        try:
            t = b.decode("utf-8")
        except UnicodeDecodeError:
            t = b.decode("latin-1")
        try:
            return t.encode(arg)
        except UnicodeEncodeError:
            return t.encode(arg, "replace")
    if kind == "crlf":
        return b.replace(b"\r\n", b"\n").replace(b"\n", b"\r\n")
    if kind == "empty":
        return b""
    raise KeyError(kind)


CACHE_REPLACEMENTS = {
    "empty": b"",
    "garbage": b"\x00\xff\xfe not json at all {{{",
    "nonutf8": b'{"version": "\xff\xfe"}',
    "scalar_null": b"null",
    "scalar_num": b"42",
    "scalar_str": b'"codelimit"',
    "list": b"[1, 2, 3]",
    "empty_obj": b"{}",
    "nested_wrong": b'{"version": "x", "uuid": "u", "root": "/", "codebase": []}',
    "codebase_null": b'{"uuid": "u", "root": "/", "codebase": null}',
    "files_list": b'{"uuid": "u", "root": "/", "codebase": {"totals": {}, "tree": {}, "files": []}}',
    "ws_only": b"  \n\t ",
    "half_obj": b'{"version": "0.18.1", "uuid": "x", ',
}
# kinds derived from the current cache content (see World.op_cache_replace)
CACHE_DERIVED = ("stale_tail", "doubled", "bom", "marker_torn", "marker_garbage")

JSON_KINDS = {
    "null": None,
    "bool": True,
    "number": 7,
    "string": "zz",
    "array": [],
    "object": {},
}


def kind_of(v) -> str:
    if v is None:
        return "null"
    if isinstance(v, bool):
        return "bool"
    if isinstance(v, (int, float)):
        return "number"
    if isinstance(v, str):
        return "string"
    if isinstance(v, list):
        return "array"
    if isinstance(v, dict):
        return "object"
    raise TypeError(type(v))


def json_paths(d, prefix=()):
    """Every path (tuple of keys / indices) in a JSON document, parents first."""
    out = []
    if isinstance(d, dict):
        for k, v in d.items():
            p = prefix + (k,)
            out.append(p)
            out.extend(json_paths(v, p))
    elif isinstance(d, list):
        for i, v in enumerate(d):
            p = prefix + (i,)
            out.append(p)
            out.extend(json_paths(v, p))
    return out


def _walk(d, jpath):
    cur = d
    for k in jpath[:-1]:
        if isinstance(cur, dict):
            if k not in cur:
                return None
            cur = cur[k]
        elif isinstance(cur, list):
            if not isinstance(k, int) or not (0 <= k < len(cur)):
                return None
            cur = cur[k]
        else:
            return None
    return cur


def mutate_json(d, jpath, mutation, value=None) -> bool:
    """In-place mutation of document d at jpath.  Returns False if impossible.

    delete_key      remove an object key (only object members; array elements
                    are not removed: that leaves a well-formed shorter list)
    kind:<k>        replace the value by the canonical value of JSON kind k
                    (only when k differs from the current kind)
    set             replace by `value` (identity-field edits for C09)
    """
    jpath = list(jpath)
    if not jpath:
        return False
    parent = _walk(d, jpath)
    last = jpath[-1]
    if isinstance(parent, dict):
        if last not in parent:
            return False
    elif isinstance(parent, list):
        if not isinstance(last, int) or not (0 <= last < len(parent)):
            return False
    else:
        return False
    if mutation == "delete_key":
        if not isinstance(parent, dict):
            return False
        del parent[last]
        return True
    if mutation.startswith("kind:"):
        k = mutation[5:]
        if kind_of(parent[last]) == k:
            return False
        parent[last] = copy.deepcopy(JSON_KINDS[k])
        return True
    if mutation.startswith("same:"):
        # another value of the SAME JSON kind: the document stays well-formed and merely claims
        # something else (only "never breaks" can be required afterwards)
        cur = parent[last]
        v = mutation[5:]
        k = kind_of(cur)
        new = {"number": {"zero": 0, "neg": -1, "huge": 10 ** 12, "frac": 1.5},
               "string": {"empty": "", "other": "zz", "long": "x" * 300, "dots": "././a.py"},
               "array": {"empty": [], "half": None, "short": None},
               "object": {"empty": {}},
               "bool": {"flip": None}}.get(k, {})
        if v not in new:
            return False
        if k == "array" and v == "half":
            val = cur[: len(cur) // 2]
        elif k == "array" and v == "short":
            val = cur[:-1]
        elif k == "bool":
            val = not cur
        else:
            val = new[v]
        if val == cur:
            return False
        parent[last] = copy.deepcopy(val)
        return True
    if mutation == "set":
        parent[last] = value
        return True
    if mutation == "rename_key":
        if not isinstance(parent, dict) or value in parent:
            return False
        # keep position irrelevant: dict order is not significant
        parent[value] = parent.pop(last)
        return True
    raise KeyError(mutation)
