"""Run loop: executes a self-contained op list against a fresh World and
evaluates the oracles of the spec's property while the run proceeds.

A spec is {"property", "seed", "ops": [...], "swarm": {...}}; every op carries
its own nonce, so executing a spec draws nothing from any generator: a spec is
its own replay file.
"""
from __future__ import annotations

import hashlib
import json
import os

from . import seams
from .seams import CTX, stream
from .world import World, MARKERS, read_bytes
from . import oracles as O
from .corpus import CONTENTS, LEXER_NAME, content_bytes

import re

PROCESS_OPS = ("scan", "check", "report", "findings")
_LOG_TS = re.compile(r"\[\d{4}-\d\d-\d\d \d\d:\d\d:\d\d,\d{3}\]")


def running_version():
    from codelimit.version import version
    return version


class Violation(dict):
    pass


def violation(prop, oracle, detail, op_index, obs=None, **extra):
    v = Violation(property=prop, oracle=oracle, detail=detail, op_index=op_index)
    if obs is not None:
        v["outcome"] = obs.get("outcome")
        if obs.get("outcome") in ("internal_error", "hang"):
            v["exc"] = obs.get("exc", "StepBudgetExceeded")
            v["where"] = obs.get("where")
            v["msg"] = obs.get("msg")
            v["tb"] = obs.get("tb")
    v.update(extra)
    v["sig"] = signature(v)
    return v


def signature(v) -> str:
    parts = [v["property"], v["oracle"], str(v.get("outcome") or "-"), str(v.get("exc") or "-")]
    w = v.get("where")
    parts.append("%s:%s" % (w[0], w[1]) if w else "-")
    return "/".join(parts)


class Executor:
    def __init__(self, spec, ref_table=None):
        self.spec = spec
        self.prop = spec["property"]
        self.wl = spec.get("workload", spec["property"])
        self.ops = spec["ops"]
        self.swarm = spec.get("swarm", {})
        self.ref_table = ref_table
        self.viol = []
        self.log = []           # one digest line per op (determinism self-test)
        self.cover = {"proc_ops": {}, "states": set(), "transitions": set(), "probes": {}}
        self.cache_owner = None  # "own" after an ok scan, "foreign" after set_version(other), None unknown
        self.pending_fault = None  # C10: description of the last cache fault not yet followed by a scan
        self.last_scan_report = None
        self.baseline_version = None
        self.tainted = {}       # path key -> forged checksum planted by cache_identity (with markers)
        self.fresh_memo = {}
        self.fresh_memo_on = False   # sweeps restore the same tree over and over: one reference per tree state
        self.lib_history = []
        self.n_reports = 0
        self.stop = False
        self.subcases = 0
        self.subcase_digests = set()
        self.recorder = bool(seams._INSTALLED.get("path_recorder"))

    # -- helpers ----------------------------------------------------------------
    def probe(self, name, n=1):
        self.cover["probes"][name] = self.cover["probes"].get(name, 0) + n

    def add(self, v):
        self.viol.append(v)

    def state_abstract(self):
        w = self.world
        return (w.tree_digest(), tuple(w.cli_excludes), w.cache_class(), w.spelling)

    # -- main loop --------------------------------------------------------------
    def run(self):
        CTX.reset_run()
        # a run is hermetic: whatever module-level state earlier runs of this worker left in
        # the code under test is reset, so that one seed is one repeatable execution
        seams.restore_module_state()
        set_pol = self.swarm.get("set_policy", "mixed")
        walk_pol = self.swarm.get("walk_policy", "shuffled")
        self.set_policy, self.walk_policy = set_pol, walk_pol
        if seams._INSTALLED.get("simset"):
            # swarm: a share of runs uses the builtin set under the worker's real hash seed
            if self.swarm.get("builtin_set"):
                seams.remove_simset()
                CTX.counters["runs_with_builtin_set"] += 1
            else:
                seams.inject_simset()
        with World(budget=self.swarm.get("step_budget", 3_000_000), dot_root=bool(self.swarm.get("dot_root"))) as w:
            self.world = w
            prev_state = None
            for idx, op in enumerate(self.ops):
                obs = self.do(idx, op)
                self.log.append("%d %s %s" % (idx, op["op"], self.obs_digest(obs)))
                kind = op["op"]
                if kind in PROCESS_OPS or kind in ("analyze", "scan_inproc"):
                    self.cover["proc_ops"][kind] = self.cover["proc_ops"].get(kind, 0) + 1
                if self.swarm.get("track_states", True) and kind in PROCESS_OPS:
                    st = O.digest(self.state_abstract())
                    self.cover["states"].add(st)
                    if prev_state is not None:
                        self.cover["transitions"].add((prev_state, kind, st))
                    prev_state = st
                if self.stop:
                    break
            self.at_end()
            self.sim_seconds = w.sim_seconds
            self.steps = w.steps_total
        return self.result()

    def result(self):
        return {
            "violations": self.viol,
            "log_digest": hashlib.sha1("\n".join(self.log).encode("utf-8", "surrogatepass")).hexdigest(),
            "log": self.log,
            "cover": {
                "proc_ops": self.cover["proc_ops"],
                "states": sorted(self.cover["states"]),
                "transitions": sorted("|".join(t) for t in self.cover["transitions"]),
                "probes": self.cover["probes"],
            },
            "counters": dict(CTX.counters),
            "set_orders": len(CTX.set_orders),
            "set_order_digests": sorted(O.digest(list(x)) for x in CTX.set_orders)[:64],
            "walk_orders": sorted(O.digest(list(x)) for x in CTX.walk_orders)[:64],
            "sim_seconds": self.sim_seconds,
            "steps": self.steps,
            "n_ops": len(self.ops),
            "n_reports": self.n_reports,
            "subcases": self.subcases,
            "subcase_digests": sorted(self.subcase_digests),
        }

    def obs_digest(self, obs):
        if not isinstance(obs, dict):
            return "-"
        keep = {k: obs[k] for k in ("outcome", "code", "exc", "where", "noop", "k", "of", "changed", "result",
                                    "fault_fired", "io_ticks", "errno") if k in obs}
        if "stdout" in obs:
            # the verbose log line prefix is the only real-clock text the program prints
            out = _LOG_TS.sub("[TS]", self.world.norm(obs["stdout"]))
            keep["stdout"] = hashlib.md5(out.encode("utf-8", "surrogatepass")).hexdigest()
        if obs.get("report_digest"):
            keep["report"] = obs["report_digest"]
        return json.dumps(keep, sort_keys=True, default=str)

    # -- op dispatch ------------------------------------------------------------
    def do(self, idx, op):
        w = self.world
        k = op["op"]
        if k == "write":
            return w.op_write(op["path"], op["content"], op.get("mtime_delta", 0.0))
        if k == "delete":
            return w.op_delete(op["path"])
        if k == "rename":
            return w.op_rename(op["src"], op["dst"], op.get("overwrite", False))
        if k == "touch":
            return w.op_touch(op["path"])
        if k == "swap":
            return w.op_swap(op["a"], op["b"], op.get("by_rename", False))
        if k == "link":
            return w.op_link(op["src"], op["dst"], op.get("hard", False))
        if k == "mkdir":
            return w.op_mkdir(op["path"])
        if k == "corrupt":
            return w.op_corrupt(op["path"], op["kind"], op.get("arg"))
        if k == "set_yml":
            return w.op_set_yml(op["patterns"], op.get("verbose"), op.get("where", ""))
        if k == "set_gitignore":
            return w.op_set_gitignore(op["patterns"], op.get("where", ""), op.get("eol", "\n"), op.get("final_eol", True))
        if k == "set_cli":
            w.cli_excludes = w._encodable(list(op["patterns"]))
            return {}
        if k == "set_git":
            w.git = op["scenario"]
            return {}
        if k == "save_baseline":
            r = w.op_save_baseline(op.get("version"))
            if "noop" not in r:
                self.baseline_version = r["version"]
            return r
        if k == "set_env":
            w.env = {k2: v for k2, v in op["env"].items()}
            return {}
        if k == "set_spelling":
            w.spelling = op["mode"]
            return {}
        if k == "advance_clock":
            seams.advance_clock(op["seconds"])
            w.sim_seconds += abs(op["seconds"])
            return {}
        if k == "cache_truncate":
            r = w.op_cache_truncate(op.get("k"), op.get("frac"))
            self._cache_faulted(op, r)
            return r
        if k == "cache_flip":
            d0 = w.cache_json()
            r = w.op_cache_flip(op["k"], op.get("xor", 1))
            self._cache_faulted(op, r)
            if "noop" not in r and self.pending_fault is not None:
                d1 = w.cache_json()
                # a flip that leaves a well-formed document of the same shape (a digit, a letter
                # inside a value) merely makes the cache claim something else: nothing on disk can
                # reveal it, so only "never breaks" is required of the next scan, not equality
                if d0 is not None and d1 is not None and _shape(d0) == _shape(d1):
                    self.pending_fault["relaxed"] = True
                    self.probe("c10_flip_same_shape")
                else:
                    self.probe("c10_flip_detectable")
            return r
        if k == "cache_hibit":
            r = w.op_cache_hibit(op["field"], op.get("nth", 0))
            self._cache_faulted(op, r)
            return r
        if k == "cache_replace":
            r = w.op_cache_replace(op["kind"])
            self._cache_faulted(op, r)
            return r
        if k == "cache_mutate":
            r = w.op_cache_mutate(op["jpath"], op["mutation"], op.get("value"))
            self._cache_faulted(op, r)
            return r
        if k == "cache_delete":
            r = w.op_cache_delete(op["what"])
            self._cache_faulted(op, r)
            return r
        if k == "cache_set_version":
            return self.do_cache_set_version(op)
        if k == "cache_identity":
            return self.do_cache_identity(op)
        if k == "scan":
            return self.do_scan(idx, op)
        if k == "check":
            return self.do_check(idx, op)
        if k in ("report", "findings"):
            return self.do_report(idx, op)
        if k == "analyze":
            return self.do_analyze(idx, op)
        if k == "scan_inproc":
            return self.do_scan_inproc(idx, op)
        if k == "crash_sweep":
            from .props import c10
            return c10.do_crash_sweep(self, idx, op)
        if k == "struct_sweep":
            from .props import c10
            return c10.do_struct_sweep(self, idx, op)
        if k == "analysis_sweep":
            from .props import c03
            return c03.do_analysis_sweep(self, idx, op)
        raise KeyError("unknown op %r" % k)

    def _cache_faulted(self, op, r):
        if "noop" not in r and self.wl in ("C09", "C10"):
            self.pending_fault = {k: v for k, v in op.items() if k != "nonce"}
            self.cache_owner = None

    # -- cache identity edits (C09) ----------------------------------------------
    def do_cache_set_version(self, op):
        w = self.world
        d = w.cache_json()
        if not isinstance(d, dict) or "codebase" not in d:
            return {"noop": "no_valid_cache"}
        if op["version"] == "<absent>":
            d.pop("version", None)        # a cache written before the field existed
        else:
            d["version"] = op["version"]
        foreign = op["version"] != running_version()
        if foreign and op.get("marker", True):
            # a cache of another version must not be reused: make reuse visible
            _plant_markers(d, "VER")
        elif not foreign:
            _strip_markers(d)   # a same-version cache is reusable: nothing planted may stay in it
            self.tainted.clear()
        from .world import write_bytes
        write_bytes(w.cache_file, json.dumps(d, indent=2).encode())
        if foreign:
            self.cache_owner = "foreign"
        CTX.counters["cache_set_version"] += 1
        return {}

    def do_cache_identity(self, op):
        """Edit an identity field of one cached entry (its path key or its
        checksum) and plant a visible marker in that entry's measurements: the
        entry must then not be reused, so the marker must not survive."""
        w = self.world
        d = w.cache_json()
        try:
            files = d["codebase"]["files"]
            keys = sorted(files)
        except (TypeError, KeyError):
            return {"noop": "no_valid_cache"}
        if not isinstance(files, dict) or not keys:
            return {"noop": "no_entries"}
        key = keys[op["index"] % len(keys)]
        e = files[key]
        what = op["what"]
        # earlier structural faults of the same history may have left any shape behind
        if (not isinstance(e, dict) or not isinstance(e.get("measurements"), list) or not e["measurements"]
                or not all(isinstance(m, dict) and isinstance(m.get("unit_name"), str) for m in e["measurements"])
                or not isinstance(e.get("checksum"), str)):
            return {"noop": "entry_not_well_formed"}
        for m in e["measurements"]:
            m["unit_name"] = "MARK_" + m["unit_name"]
        if what == "checksum":
            e["checksum"] = hashlib.md5(b"other" + e["checksum"].encode()).hexdigest()
        elif what == "checksum_of":
            # give it the checksum of another entry (a per-content, not per-path, lookup would reuse it)
            other = files[keys[(op["index"] + 1) % len(keys)]]
            if not isinstance(other, dict) or not isinstance(other.get("checksum"), str):
                return {"noop": "entry_not_well_formed"}
            if other["checksum"] == e["checksum"]:
                return {"noop": "same_checksum"}
            # the forged checksum must really be wrong for the file now stored under this path:
            # after a swap / rename it can be the right one, and reusing the entry is then what
            # the statement allows (nothing on disk can reveal the edit)
            full = w.p(key)
            if os.path.isfile(full) and other["checksum"] in O.checksums_of(read_bytes(full)):
                return {"noop": "forged_checksum_matches_current_content"}
            e["checksum"] = other["checksum"]
            self.tainted[key] = e["checksum"]
        elif what == "path":
            newkey = op.get("newkey") or ("moved/" + key)
            if newkey in files:
                return {"noop": "key_exists"}
            files[newkey] = files.pop(key)
            self.tainted[newkey] = e["checksum"]
        else:
            raise KeyError(what)
        from .world import write_bytes
        write_bytes(w.cache_file, json.dumps(d, indent=2).encode())
        CTX.counters["cache_identity_" + what] += 1
        self.cache_owner = None
        return {"entry": key}

    # -- processes ----------------------------------------------------------------
    def fresh_reference(self, nonce, same_walk_as=None):
        """From-scratch scan of the current tree under the current configuration
        (the reference model: same entry point, no durable state)."""
        w = self.world
        key = None
        if self.fresh_memo_on:
            key = O.digest([w.tree_digest(), w.cli_excludes, w.yml_patterns, w.gi_patterns, w.git, w.spelling])
            if key in self.fresh_memo:
                CTX.counters["reference_scans_memoised"] += 1
                return self.fresh_memo[key]
        had = w.stash_cache()
        saved = (CTX.clock, CTX.uuid_n)
        try:
            obs = w.scan("%s/ref" % nonce, set_policy=self.set_policy, walk_policy=self.walk_policy,
                         walk_nonce=same_walk_as)
            F = w.cache_json() if obs["outcome"] == "ok" else None
            markers = {m: read_bytes(os.path.join(w.cache_dir, m)) for m in MARKERS
                       if os.path.exists(os.path.join(w.cache_dir, m))}
        finally:
            w.unstash_cache(had)
            CTX.clock, CTX.uuid_n = saved
        CTX.counters["reference_scans"] += 1
        if self.recorder and F is not None:
            # a from-scratch scan must have analysed every file it reports; if the recorder does
            # not see that (the wrapped function was refactored), its sub-oracles are switched off
            try:
                if not set(F["codebase"]["files"]) <= set(obs.get("analysed_paths", [])):
                    self.recorder = False
                    self.probe("recorder_unreliable")
            except (KeyError, TypeError):
                pass
        if key is not None:
            self.fresh_memo[key] = (obs, F, markers)
        return obs, F, markers

    def neutralise_taint(self):
        """A forged identity field is a detectable fault only while it is wrong.  Later edits
        (swap, rename, write) can make the forged checksum the right one for the file now stored
        under that key; reusing the entry is then what the statement allows and nothing on disk
        can reveal the planted markers.  Such entries are removed from the cache before the scan
        (equivalent to never having been planted)."""
        if not self.tainted:
            return
        w = self.world
        d = w.cache_json()
        try:
            files = d["codebase"]["files"]
        except (TypeError, KeyError):
            self.tainted.clear()
            return
        changed = False
        for key, chk in list(self.tainted.items()):
            e = files.get(key) if isinstance(files, dict) else None
            full = w.p(key)
            if (isinstance(e, dict) and e.get("checksum") == chk and os.path.isfile(full)
                    and chk in O.checksums_of(read_bytes(full))):
                del files[key]
                del self.tainted[key]
                changed = True
                self.probe("c09_taint_became_legitimate")
        if changed:
            from .world import write_bytes
            write_bytes(w.cache_file, json.dumps(d, indent=2).encode())

    def do_scan(self, idx, op):
        w = self.world
        prop = self.prop
        nonce = op["nonce"]
        fault = op.get("fault")
        self.neutralise_taint()
        pre_cache = w.cache_json()
        pre_class = w.cache_class()
        obs = w.scan(nonce, fault=fault, spelling=op.get("spelling"), verbose=op.get("verbose", False),
                     set_policy=self.set_policy, walk_policy=self.walk_policy, env=op.get("env"),
                     read_fault=op.get("read_fault"), new_process=not op.get("inproc"))
        raw = w.cache_bytes()
        C = w.cache_json()
        if raw is not None:
            obs["report_digest"] = hashlib.md5(w.norm(raw.decode("utf-8", "replace")).encode()).hexdigest()
        if op.get("read_fault") and obs.get("fault_fired") is not None:
            # an injected read error may fail the scan, never make it succeed with a wrong report
            self.probe("scan_read_fault_" + obs["outcome"])
            if obs["outcome"] == "ok":
                from .props import common
                common.after_read_faulted_scan(self, idx, op, obs, C)
            elif obs["outcome"] != "io_error":
                self.add(violation("C03", "read_fault_fails_only_as_injected", "scan with EIO on reading %s ended %s %s %s" % (
                    obs["fault_fired"]["path"], obs["outcome"], obs.get("exc", ""), obs.get("msg", "")), idx, obs))
            self.cache_owner = None
            self.last_scan_report = None
            # no cache fault happened: the scans that follow get the ordinary C09 oracles
            return obs
        faulted = fault is not None and obs.get("fault_fired") is not None
        if faulted:
            self.pending_fault = {"op": "scan_fault", **obs["fault_fired"]}
            self.cache_owner = None
            self.probe("scan_fault_" + obs["fault_fired"]["kind"])
            if obs["outcome"] not in ("crashed", "io_error", "ok", "exit"):
                # an injected fault may fail the op, but only as the injected error
                pass
            return obs
        # ---- fault-free scan: oracles ----
        from .props import common
        common.after_scan(self, idx, op, obs, C, raw, pre_cache, pre_class)
        if obs["outcome"] == "ok":
            self.tainted.clear()   # the scan rewrote the cache
        return obs

    def do_check(self, idx, op):
        w = self.world
        obs = w.check(op["args"], op.get("cwd", "root"), op.get("quiet", False), op["nonce"],
                      set_policy=self.set_policy, walk_policy=self.walk_policy, new_process=not op.get("inproc"))
        if obs["outcome"] == "skipped":
            return obs
        if op.get("inproc") and self.wl == "C06":
            # the same invocation in a fresh process must say the same: nothing of an earlier
            # invocation in this process may show
            ref = w.check(op["args"], op.get("cwd", "root"), op.get("quiet", False), "%s/fresh" % op["nonce"],
                          set_policy=self.set_policy, walk_policy=self.walk_policy)
            a = O.parse_check_output(obs.get("stdout", ""))[:2]
            b = O.parse_check_output(ref.get("stdout", ""))[:2]
            if (obs["outcome"], obs.get("code"), sorted(a[0]), a[1]) != (ref["outcome"], ref.get("code"), sorted(b[0]), b[1]):
                self.add(violation("C06", "check_independent_of_earlier_invocations",
                                   "check %s, invoked again inside one process, printed %s / %s files; in a fresh process %s / %s"
                                   % (op["args"], sorted(a[0]), a[1], sorted(b[0]), b[1]), idx))
            self.probe("c06_inproc_check_compared")
        from .props import common
        common.after_check(self, idx, op, obs)
        return obs

    def do_report(self, idx, op):
        w = self.world
        if op["op"] == "report":
            obs = w.report(op.get("fmt", "text"), op["nonce"], diff=bool(op.get("diff")))
        else:
            obs = w.findings(op.get("fmt", "text"), op.get("full", False), op["nonce"])
        from .props import common
        common.after_report(self, idx, op, obs)
        return obs

    # -- library mode (C06) -------------------------------------------------------
    def do_analyze(self, idx, op):
        from .props import c06
        return c06.do_analyze(self, idx, op)

    def do_scan_inproc(self, idx, op):
        from .props import c06
        return c06.do_scan_inproc(self, idx, op)

    def at_end(self):
        pass


def _shape(d):
    """Structure of a JSON document: kinds and object keys, not scalar values."""
    if isinstance(d, dict):
        return {k: _shape(v) for k, v in d.items()}
    if isinstance(d, list):
        return [_shape(v) for v in d]
    if isinstance(d, bool):
        return "bool"
    if isinstance(d, (int, float)):
        return "number"
    if isinstance(d, str):
        return "string"
    return "null"


def _strip_markers(d):
    import re
    try:
        for e in d["codebase"]["files"].values():
            for m in e["measurements"]:
                m["unit_name"] = re.sub(r"^(MARK_VER_|MARK_)+", "", m["unit_name"])
    except (KeyError, TypeError, AttributeError):
        pass


def _plant_markers(d, tag):
    try:
        for e in d["codebase"]["files"].values():
            for m in e["measurements"]:
                m["unit_name"] = "MARK_%s_%s" % (tag, m["unit_name"])
    except (KeyError, TypeError, AttributeError):
        pass


def execute(spec, ref_table=None):
    ex = Executor(spec, ref_table)
    return ex.run()
