"""Which cases a check runs: maps (check id, tier, case index) to a spec.

`one seed, one run`: case i of a check invoked with VERIF_SEED=s has run-seed
R = s * 2**24 + i and is a pure function of (check id, tier, R).
"""
from __future__ import annotations

CHECKS = ("C03", "C06", "C07", "C09", "C10", "C11", "C12")

# (runs in quick tier, batch size, thorough default budget seconds, thorough max runs)
TIERS = {
    "C03": {"quick": 840, "batch": 12, "thorough_s": 900, "thorough_max": 40_000},
    "C06": {"quick": 640, "batch": 20, "thorough_s": 900, "thorough_max": 400_000},
    "C07": {"quick": 480, "batch": 15, "thorough_s": 600, "thorough_max": 400_000},
    "C09": {"quick": 480, "batch": 15, "thorough_s": 1200, "thorough_max": 400_000},
    "C10": {"quick": 336, "batch": 10, "thorough_s": 1200, "thorough_max": 100_000},
    "C11": {"quick": 800, "batch": 25, "thorough_s": 900, "thorough_max": 400_000},
    "C12": {"quick": 320, "batch": 10, "thorough_s": 900, "thorough_max": 200_000},
}


def quick_runs(check: str) -> int:
    """Quick tier size: never smaller than the enumerated part of the check's plan."""
    n = TIERS[check]["quick"]
    if check == "C03":
        from .props import c03
        n = max(n, 2 * len(c03.sweep_plan("quick")))
    elif check == "C10":
        from .props import c10
        n = max(n, len(c10.plan("quick")) + 48)
    return n


def run_seed(verif_seed: int, i: int) -> int:
    return verif_seed * (1 << 24) + i


def case_spec(check: str, tier: str, verif_seed: int, i: int):
    R = run_seed(verif_seed, i)
    if check == "C06":
        from .props import c06
        spec = c06.gen(i, R, tier)
    elif check == "C09":
        from .props import c09
        spec = c09.gen(i, R, tier)
    elif check == "C10":
        from .props import c10
        spec = c10.gen(i, R, tier)
    elif check == "C11":
        from .props import c11, c09
        spec = c09.gen(i, R, tier, model_only_patterns=True) if i % 8 == 7 else c11.gen(i, R, tier)
    elif check == "C12":
        from .props import c12
        spec = c12.gen(i, R, tier)
    elif check == "C03":
        from .props import c03
        spec = c03.gen(i, R, tier)
    elif check == "C07":
        from .props import c06, c09, c11, c07
        k = i % 5
        if k == 4:
            spec = c06.gen(i, R, tier, force_mode="library")
        elif k == 0:
            spec = c09.gen(i, R, tier)
        elif k == 1:
            spec = c11.gen(i, R, tier, noninterference=False)
        elif k == 2:
            spec = c07.gen(i, R, tier)
        else:
            spec = c06.gen(i, R, tier, force_mode="process")
    else:
        raise KeyError(check)
    spec["property"] = check
    spec["case"] = i
    spec["seed"] = R
    spec["tier"] = tier
    return spec
