"""Sensitivity self-test: break a property on purpose in a scratch copy of the
repository, confirm the pinned test suite still passes, and confirm that the
relevant quick check reports a violation whose replay reproduces.

  run.py selftest sensitivity [--only ID,ID] [--runs N]

Writes /verif/SENSITIVITY.md.  The scratch copy lives under /dev/shm and is
deleted after each mutant.
"""
from __future__ import annotations

import json
import os
import shutil
import subprocess
import sys
import tempfile
import time

HERE = os.path.dirname(os.path.dirname(os.path.abspath(__file__)))

# id, property, file, old, new, note
MUTANTS = [
    # ---- C06 -------------------------------------------------------------------
    ("m06_first_transition", "C06", "codelimit/common/gsm/Pattern.py",
     "        open_transitions = [t for t in transitions if t[0].is_open()]\n        for predicate, next_state in open_transitions or transitions:",
     "        for predicate, next_state in transitions:\n            if found_transition:\n                break",
     "take the first applicable transition (no open-group precedence, no ambiguity error): result depends on DFA transition order, i.e. on set iteration order"),
    ("m06_dfa_memo", "C06", "codelimit/common/gsm/matcher.py",
     "def find_all(expression: Expression, sequence: list) -> list[Pattern]:\n    dfa = nfa_to_dfa(expression_to_nfa(expression))",
     "_DFA_CACHE: dict = {}\n\n\ndef find_all(expression: Expression, sequence: list) -> list[Pattern]:\n    key = str(expression)\n    if key not in _DFA_CACHE:\n        _DFA_CACHE[key] = nfa_to_dfa(expression_to_nfa(expression))\n    dfa = _DFA_CACHE[key]",
     "DFA memoised per expression text: harmless alone (Pattern deep-copies predicates) - expected NOT to break C06; control mutant"),
    ("m06_memo_by_checksum", "C06", "codelimit/common/Scanner.py",
     "def _analyze_file(path, rel_path, checksum, lexer):\n    logging.info(f\"Analyzing {rel_path}\")",
     "_ANALYSED: dict = {}\n\n\ndef _analyze_file(path, rel_path, checksum, lexer):\n    if checksum in _ANALYSED:\n        prev = _ANALYSED[checksum]\n        return SourceFileEntry(rel_path, checksum, prev.language, prev.loc, prev.measurements())\n    entry = _analyze_file_uncached(path, rel_path, checksum, lexer)\n    _ANALYSED[checksum] = entry\n    return entry\n\n\ndef _analyze_file_uncached(path, rel_path, checksum, lexer):\n    logging.info(f\"Analyzing {rel_path}\")",
     "in-process memo of analysis results keyed by content checksum only: identical bytes under two extensions get the language and measurements of whichever was walked first"),
    # ---- C09 -------------------------------------------------------------------
    ("m09_no_checksum", "C09", "codelimit/common/Scanner.py",
     "if cached_entry and cached_entry.checksum() == checksum:", "if cached_entry:",
     "cached entry reused whenever the path matches, content ignored"),
    ("m09_basename_lookup", "C09", "codelimit/common/Scanner.py",
     "            cached_entry = cached_report.codebase.files[rel_path]\n        except KeyError:\n            pass",
     "            cached_entry = cached_report.codebase.files[rel_path]\n        except KeyError:\n            for k, v in cached_report.codebase.files.items():\n                if k.rsplit('/', 1)[-1] == rel_path.rsplit('/', 1)[-1] and v.checksum() == checksum:\n                    cached_entry = v",
     "entries are also reused for a file with the same basename and content under another path (the statement allows reuse only when the path is unchanged; results stay equal, so only the analysis recorder can see it)"),
    ("m09_prefix_checksum", "C09", "codelimit/common/utils.py",
     "        return hashlib.md5(file_bytes).hexdigest()", "        return hashlib.md5(file_bytes[:256]).hexdigest()",
     "checksum only covers the first 256 bytes: an edit further down the file is not noticed"),
    ("m09_version_not_restored", "C09", "codelimit/common/report/ReportReader.py",
     "        report.version = d.get(\"version\")\n", "",
     "revert of fix F2: cache of another version is reused"),
    ("m09_display_any_version", "C09", "codelimit/utils.py",
     "    if report_version != Report.VERSION:", "    if report_version is None:",
     "report/findings display a report written by another version"),
    ("m09_keep_excluded", "C09", "codelimit/common/Scanner.py",
     "            if is_excluded(rel_path, excludes_spec):\n                continue\n            try:",
     "            if is_excluded(rel_path, excludes_spec) and not (cached_report and str(rel_path) in cached_report.codebase.files):\n                continue\n            try:",
     "a file that was in the previous report stays in the report after it becomes excluded"),
    # ---- C10 -------------------------------------------------------------------
    ("m10_reader_intolerant", "C10", "codelimit/commands/scan.py",
     "        except (ValueError, KeyError, TypeError, AttributeError):", "        except (KeyError,):",
     "revert of fix F1 for most damage classes"),
    ("m10_markers_once", "C10", "codelimit/commands/scan.py",
     "    if not cache_dir.exists():\n        cache_dir.mkdir()\n    cache_dir_tag = cache_dir.joinpath(\"CACHEDIR.TAG\").resolve()\n    cache_dir_tag.write_text(\"Signature: 8a477f597d28d172789f06886806bc55\")\n    cache_dir_gitignore = cache_dir.joinpath(\".gitignore\").resolve()\n    cache_dir_gitignore.write_text(\"# Created by codelimit automatically.\\n*\\n\")",
     "    if not cache_dir.exists():\n        cache_dir.mkdir()\n        cache_dir_tag = cache_dir.joinpath(\"CACHEDIR.TAG\").resolve()\n        cache_dir_tag.write_text(\"Signature: 8a477f597d28d172789f06886806bc55\")\n        cache_dir_gitignore = cache_dir.joinpath(\".gitignore\").resolve()\n        cache_dir_gitignore.write_text(\"# Created by codelimit automatically.\\n*\\n\")",
     "revert of fix F8"),
    ("m10_value_type_unchecked", "C10", "codelimit/common/report/ReportReader.py",
     "                        _expect(m[\"unit_name\"], str),", "                        m[\"unit_name\"],",
     "one field of the type validation dropped: a null/number name in a cached entry is reused"),
    ("m10_tmp_leftover_blocks", "C10", "codelimit/commands/scan.py",
     "    report_path.write_text(ReportWriter(report).to_json())",
     "    tmp_path = report_path.with_suffix(\".tmp\")\n    with open(tmp_path, \"x\") as f:\n        f.write(ReportWriter(report).to_json())\n    tmp_path.replace(report_path)",
     "atomic write through a temp file opened exclusively: a crash between create and rename leaves the temp file, and every later scan fails with FileExistsError"),
    # ---- C11 -------------------------------------------------------------------
    ("m11_hidden_dirs", "C11", "codelimit/common/Scanner.py",
     "        files = [f for f in files if not f[0] == \".\"]\n        dirs[:] = [d for d in dirs if not d[0] == \".\"]\n        for file in files:\n            rel_path = Path(os.path.join(root, file)).relative_to(path.absolute())",
     "        files = [f for f in files if not f[0] == \".\"]\n        for file in files:\n            rel_path = Path(os.path.join(root, file)).relative_to(path.absolute())",
     "hidden directories no longer pruned in scan (the suite only has a hidden file)"),
    ("m11_gitignore_from_cwd", "C11", "codelimit/common/Scanner.py",
     "    gitignore_excludes = _read_gitignore(root)", "    gitignore_excludes = _read_gitignore(Path(\".\"))",
     ".gitignore read from the working directory instead of the root"),
    ("m11_cli_channel_dropped", "C11", "codelimit/__main__.py",
     "    if exclude:\n        Configuration.exclude.extend(exclude)\n    if verbose:\n        Configuration.verbose = True\n    Configuration.load(path)",
     "    if verbose:\n        Configuration.verbose = True\n    Configuration.load(path)",
     "--exclude of scan silently ignored"),
    ("m11_yml_replaces", "C11", "codelimit/common/Configuration.py",
     "            cls.exclude.extend(d[\"exclude\"])", "            cls.exclude = list(d[\"exclude\"])",
     ".codelimit.yml excludes replace the command-line excludes instead of adding to them (needs both channels)"),
    ("m11_nested_gitignore", "C11", "codelimit/common/Scanner.py",
     "        for file in files:\n            rel_path = Path(os.path.join(root, file)).relative_to(path.absolute())\n            if is_excluded(rel_path, excludes_spec):\n                continue\n            try:\n                lexer = get_lexer_for_filename(rel_path)",
     "        nested = _read_gitignore(Path(root))\n        for file in files:\n            rel_path = Path(os.path.join(root, file)).relative_to(path.absolute())\n            if is_excluded(rel_path, excludes_spec):\n                continue\n            if nested and Path(root) != path.absolute() and PathSpec.from_lines(\"gitignore\", nested).match_file(file):\n                continue\n            try:\n                lexer = get_lexer_for_filename(rel_path)",
     "nested .gitignore files start to take effect"),
    # ---- C12 -------------------------------------------------------------------
    ("m12_check_hidden_dirs", "C12", "codelimit/commands/check.py",
     "                dirs[:] = [d for d in dirs if not d[0] == \".\"]\n", "",
     "check walks into hidden directories"),
    ("m12_threshold", "C12", "codelimit/commands/check.py",
     "[m for m in measurements if m.value > 30]", "[m for m in measurements if m.value > 31]",
     "check lists only functions longer than 31 lines"),
    ("m12_no_latin1", "C12", "codelimit/commands/check.py",
     "        code = _read_file(path)", "        with open(path) as f:\n            code = f.read()",
     "revert of fix F6"),
    ("m12_exclude_base", "C12", "codelimit/commands/check.py",
     "                        if is_excluded(rel_path, excludes_spec):\n                            continue\n                    except ValueError:",
     "                        if is_excluded(Path(file), excludes_spec):\n                            continue\n                    except ValueError:",
     "directory walk tests exclusion patterns against the bare file name only (directory patterns and anchored patterns stop working)"),
    # ---- C07 -------------------------------------------------------------------
    ("m07_aggregate_depth", "C07", "codelimit/common/Codebase.py",
     "                        sub_folder = f\"{path}{entry.name}\"", "                        sub_folder = entry.name if entry.name in self.tree else f\"{path}{entry.name}\"",
     "aggregate resolves a nested folder by its bare name when a top-level folder of the same name exists (name clash at two depths)"),
    ("m07_totals_loc", "C07", "codelimit/common/LanguageTotals.py",
     "        self.hard_to_maintain += profile[2]", "        self.hard_to_maintain += profile[2] + (1 if profile[2] and profile[3] and self.files > 1 else 0)",
     "hard-to-maintain counter off by one for the second and later files of a language that hold both hard and unmaintainable functions"),
    ("m07_folder_twice", "C07", "codelimit/common/Codebase.py",
     "            self.add_folder(get_parent_folder(path))\n            parent_folder = self.tree[f\"{get_parent_folder(path)}/\"]\n            parent_folder.add_folder(get_basename(path))",
     "            self.add_folder(get_parent_folder(path))\n            parent_folder = self.tree[f\"{get_parent_folder(path)}/\"]\n            parent_folder.add_folder(get_basename(path))\n            if get_parent_folder(path) != \".\" and len(self.tree) % 5 == 0:\n                parent_folder.add_folder(get_basename(path))",
     "a nested folder is occasionally listed twice under its parent (depends on insertion order)"),
    # ---- C03 -------------------------------------------------------------------
    ("m03_index", "C03", "codelimit/languages/Python.py",
     "            header_end = min(header.token_range.end, len(tokens) - 1)\n            header_line_nr = tokens[header_end].location.line",
     "            header_line_nr = tokens[header.token_range.end].location.line",
     "revert of fix F4"),
    ("m03_no_fallback", "C03", "codelimit/common/Scanner.py",
     "    except UnicodeDecodeError:\n        with open(path, encoding=\"latin-1\") as f:\n            return f.read()",
     "    except UnicodeDecodeError:\n        with open(path, encoding=\"utf-16\") as f:\n            return f.read()",
     "fallback decoding changed to UTF-16 (fails on odd lengths / lone surrogates)"),
    ("m03_cwd_arith", "C03", "codelimit/commands/check.py",
     "                    try:\n                        rel_path = abs_path.relative_to(Path.cwd())\n                        if is_excluded(rel_path, excludes_spec):\n                            continue\n                    except ValueError:\n                        pass",
     "                    rel_path = abs_path.relative_to(Path.cwd())\n                    if is_excluded(rel_path, excludes_spec):\n                        continue",
     "revert of fix F7"),
]
MUTANTS = [m for m in MUTANTS if m[3] is not None]


def apply(copy, m):
    path = os.path.join(copy, m[2])
    with open(path) as f:
        s = f.read()
    if s.count(m[3]) != 1:
        return False
    with open(path, "w") as f:
        f.write(s.replace(m[3], m[4]))
    return True


def main(argv):
    import argparse
    ap = argparse.ArgumentParser()
    ap.add_argument("--only", default="")
    ap.add_argument("--runs", type=int, default=0)
    ap.add_argument("--out", default=os.path.join(HERE, "SENSITIVITY.md"))
    a = ap.parse_args(argv)
    from .world import scratch_parent
    py = "/venv/bin/python"
    rows = []
    only = set(x for x in a.only.split(",") if x)
    for m in MUTANTS:
        if only and m[0] not in only:
            continue
        copy = tempfile.mkdtemp(prefix="clsim-mut-", dir=scratch_parent())
        try:
            subprocess.run(["git", "-C", "/repo", "worktree", "prune"], capture_output=True)
            shutil.copytree("/repo", os.path.join(copy, "repo"), ignore=shutil.ignore_patterns(".git", "__pycache__", ".codelimit_cache"))
            repo = os.path.join(copy, "repo")
            if not apply(repo, m):
                rows.append((m, "PATCH-DOES-NOT-APPLY", "-", "-", 0))
                continue
            env = dict(os.environ, PYTHONDONTWRITEBYTECODE="1", PYTHONPATH=repo)
            t = subprocess.run([py, "-m", "pytest", "-q", "-p", "no:cacheprovider", "-x", "--timeout=900"], cwd=repo, env=env,
                               capture_output=True, text=True)
            suite = "pass" if t.returncode == 0 else "FAIL(%s)" % (t.stdout.strip().splitlines()[-1][:60] if t.stdout.strip() else t.returncode)
            env2 = dict(os.environ, VERIF_REPO=repo, VERIF_SEED="0")
            t0 = time.time()
            cmd = [py, os.path.join(HERE, "run.py"), m[1], "--tier", "quick"]
            if a.runs:
                cmd += ["--runs", str(a.runs)]
            r = subprocess.run(cmd, env=env2, capture_output=True, text=True, cwd=HERE)
            wall = time.time() - t0
            viol = [l for l in r.stdout.splitlines() if l.startswith("VIOLATION")]
            oracle = [l.strip() for l in r.stdout.splitlines() if l.strip().startswith("oracle=")]
            replay_ok = "-"
            if viol:
                path = viol[0].split("replay=")[1].strip()
                rr = subprocess.run([py, os.path.join(HERE, "run.py"), m[1], "--replay", path], env=env2, capture_output=True, text=True, cwd=HERE)
                replay_ok = "reproduces" if rr.returncode == 1 else "DOES-NOT-REPRODUCE(rc=%d)" % rr.returncode
                # and the replay must pass on the unmodified tree
                rr2 = subprocess.run([py, os.path.join(HERE, "run.py"), m[1], "--replay", path], env=dict(os.environ), capture_output=True, text=True, cwd=HERE)
                replay_ok += ", clean on /repo" if rr2.returncode == 0 else ", ALSO FAILS ON /repo(rc=%d)" % rr2.returncode
                try:
                    with open(path) as f:
                        d = json.load(f)
                    replay_ok += ", %d ops" % len(d["spec"]["ops"])
                    os.unlink(path)
                except Exception:  # noqa: BLE001
                    pass
            rows.append((m, suite, "exit %d" % r.returncode, (oracle[0][:110] if oracle else "-") + " / " + replay_ok, wall))
            print("%-28s %-4s suite=%-8s check=exit %d %5.0fs %s %s" % (m[0], m[1], suite, r.returncode, wall, oracle[0][:90] if oracle else "", replay_ok), flush=True)
        finally:
            shutil.rmtree(copy, ignore_errors=True)
    with open(a.out, "w") as f:
        f.write("# Sensitivity self-test\n\nEach mutant is applied to a scratch copy of /repo (deleted afterwards), the pinned pytest suite is run on it, then the quick check of the property it targets runs with VERIF_REPO pointing at the copy. `exit 1` + a replay that reproduces on the mutant and is clean on /repo = detected.\n\n")
        f.write("| mutant | property | what | suite | check | first oracle / replay | wall s |\n|---|---|---|---|---|---|---|\n")
        for m, suite, rc, orc, wall in rows:
            f.write("| %s | %s | %s | %s | %s | %s | %.0f |\n" % (m[0], m[1], m[5].replace("|", "/"), suite, rc, orc.replace("|", "/"), wall))
    return 0
