"""Self-tests of the harness itself.

  run.py selftest determinism [--n N] [--checks C06,C09,...]
      every sampled case is executed in 4 fresh interpreters: twice inside a
      batch, once alone (other batch composition / worker count), once under a
      different PYTHONHASHSEED; the per-op event logs are diffed.
  run.py selftest conformance [--n N]
      fault-free histories are re-executed with real `python -m codelimit`
      subprocesses (real process boundary, builtin set, real Live thread) and
      the normalised reports / check outputs / exit codes are compared with the
      simulated ones.
"""
from __future__ import annotations

import concurrent.futures as cf
import json
import os
import subprocess
import sys
import time

HERE = os.path.dirname(os.path.dirname(os.path.abspath(__file__)))


def _import_run():
    sys.path.insert(0, HERE)
    import run as runmod
    return runmod


def determinism(argv):
    import argparse
    ap = argparse.ArgumentParser()
    ap.add_argument("--n", type=int, default=24)
    ap.add_argument("--checks", default="C03,C06,C07,C09,C10,C11,C12")
    ap.add_argument("--offset", type=int, default=0)
    a = ap.parse_args(argv)
    R = _import_run()
    from . import plans
    vseed = int(os.environ.get("VERIF_SEED", "0") or 0)
    bad = 0
    hs_sensitive = 0
    total = 0
    t0 = time.time()
    ref_table = None
    scratch = None
    for check in a.checks.split(","):
        if check in ("C06", "C07") and ref_table is None:
            from .props import c06
            from .world import scratch_parent
            import tempfile
            fd, scratch = tempfile.mkstemp(prefix="clsim-ref-", suffix=".json", dir=scratch_parent())
            os.close(fd)
            c06.reference_table(scratch)
            ref_table = scratch
        rt = ref_table if check in ("C06", "C07") else None
        n = a.n
        if check == "C10":
            idxs = [0, 17, 33, 64, 130, 133, 140, 150, 200, 260] + list(range(400, 400 + max(0, n - 10)))
        elif check == "C03":
            idxs = list(range(a.offset, a.offset + n))
        else:
            idxs = list(range(a.offset, a.offset + n))
        jobs = {}
        with cf.ThreadPoolExecutor(max_workers=16) as pool:
            half = len(idxs) // 2
            jobs["A1"] = pool.submit(R.run_batch, check, "quick", vseed, 0, idxs[:half], rt, 1200, True)
            jobs["A2"] = pool.submit(R.run_batch, check, "quick", vseed, 0, idxs[half:], rt, 1200, True)
            jobs["B"] = pool.submit(R.run_batch, check, "quick", vseed, 0, idxs, rt, 1800, True)
            jobs["D"] = pool.submit(R.run_batch, check, "quick", vseed, 7, list(reversed(idxs)), rt, 1800, True)
            singles = {i: pool.submit(R.run_batch, check, "quick", vseed, 0, [i], rt, 1200, True) for i in idxs[:8]}
            res = {k: f.result() for k, f in jobs.items()}
            sres = {i: f.result() for i, f in singles.items()}

        def logs(r):
            return {l["i"]: l["log"] for l in r["lines"] if "i" in l and "log" in l}
        A = {}
        A.update(logs(res["A1"]))
        A.update(logs(res["A2"]))
        B = logs(res["B"])
        D = logs(res["D"])
        S = {}
        for i, r in sres.items():
            S.update(logs(r))
        for i in idxs:
            total += 1
            variants = {"split-batch": A.get(i), "full-batch": B.get(i)}
            if i in S:
                variants["alone"] = S.get(i)
            base = variants["full-batch"]
            if base is None:
                print("DETERMINISM %s case %d: no log (worker failed?) %s" % (check, i, res["B"]["stderr"][-300:]))
                bad += 1
                continue
            for name, lg in variants.items():
                if lg != base:
                    bad += 1
                    print("DETERMINISM-DIFF %s case %d: %s differs from full-batch" % (check, i, name))
                    _show_diff(base, lg)
            if D.get(i) != base:
                hs_sensitive += 1
                print("HASHSEED-DIFF %s case %d: log under another PYTHONHASHSEED / reversed batch order differs" % (check, i))
                _show_diff(base, D.get(i))
        print("determinism %s: %d cases x (split, full, alone[first 8], other hashseed+reversed order) compared" % (check, len(idxs)))
    if scratch and os.path.exists(scratch):
        os.unlink(scratch)
    print("determinism: %d cases, %d replay differences, %d hash-seed/order differences, %.0fs" % (total, bad, hs_sensitive, time.time() - t0))
    return 0 if bad == 0 and hs_sensitive == 0 else 1


def _show_diff(a, b):
    if a is None or b is None:
        print("   one side missing")
        return
    for j, (x, y) in enumerate(zip(a, b)):
        if x != y:
            print("   first difference at op %d:\n     %s\n     %s" % (j, x[:400], y[:400]))
            return
    print("   lengths differ: %d vs %d" % (len(a), len(b)))


# ----------------------------------------------------------------------------
def conformance(argv):
    """sim vs real subprocess on fault-free histories."""
    import argparse
    ap = argparse.ArgumentParser()
    ap.add_argument("--n", type=int, default=12)
    a = ap.parse_args(argv)
    from . import seams, plans
    from .executor import Executor
    from . import oracles as O
    from .world import REAL
    seams.install()
    R = _import_run()
    py = R.PY
    n_cmp = 0
    bad = 0
    n_crash = 0
    for check, idxs in (("C09", range(0, a.n)), ("C12", range(0, a.n)), ("C11", range(0, a.n)), ("CRASH", range(0, a.n))):
        for i in idxs:
            if check == "CRASH":
                # a world, then real-vs-simulated process death at PRNG-chosen mutation ticks
                from .seams import stream
                from .props import c10
                rng = stream("conformance-crash", i)
                ops = c10.world_ops(i % len(c10.WORLDS), rng.choice(c10.STARTS), rng)
                for _ in range(6):
                    t = rng.choice((0, 1, 2, 3, 30, 44, 45, 80, 84, 85, 86)) if rng.random() < 0.4 else rng.randrange(0, 2600)
                    ops.append({"op": "scan", "nonce": rng.getrandbits(40), "fault": {"kind": "crash", "tick": t}})
                    if rng.random() < 0.3:
                        ops.append({"op": "cache_delete", "what": "dir"})
                spec = {"property": "C10", "workload": "C06", "seed": i, "swarm": {"set_policy": "insertion", "walk_policy": "sorted"}, "ops": ops}
            else:
                spec = plans.case_spec(check, "quick", 0, i)
                # identity edits / cache faults are harness-side and copied to the twin anyway; faulted
                # scans are exercised by the CRASH cases
                spec["ops"] = [{k: v for k, v in o.items() if k != "read_fault"} for o in spec["ops"] if not o.get("fault")]
            ex = ConformanceExecutor(spec, py, R.child_env(0))
            ex.run()
            n_crash += getattr(ex, "n_crash_cmp", 0)
            n_cmp += ex.n_cmp
            bad += len(ex.mismatches)
            for m in ex.mismatches[:3]:
                print("CONFORMANCE-DIFF %s case %d: %s" % (check, i, m))
    print("conformance: %d simulated-vs-real comparisons (%d of them real process deaths at a mutation tick), %d mismatches" % (n_cmp, n_crash, bad))
    return 0 if bad == 0 else 1


class ConformanceExecutorMixin:
    pass


def _real(py, env, cwd, args, extra_env=None):
    e = dict(env)
    e.pop("PYTHONHASHSEED", None)
    if extra_env:
        e.update({k: v for k, v in extra_env.items() if v is not None})
    p = subprocess.run([py, "-W", "ignore", os.path.join(HERE, "sim", "real_driver.py"), json.dumps(args)], cwd=cwd, env=e,
                       capture_output=True, text=True, timeout=120)
    return p.returncode, p.stdout, p.stderr


from .executor import Executor  # noqa: E402


class ConformanceExecutor(Executor):
    """Executes the spec in simulation and, for every scan / check op, also
    through a real subprocess in a copy of the same tree."""

    def __init__(self, spec, py, env):
        super().__init__(spec)
        self.py, self.env = py, env
        self.mismatches = []
        self.n_cmp = 0

    def _twin(self):
        """A copy of the world under a sibling base directory of the same path length
        (byte offsets inside the report are then identical)."""
        import shutil
        import tempfile
        w = self.world
        if getattr(self, "twin", None) is None:
            self.twin = tempfile.mkdtemp(prefix="clsim-", dir=os.path.dirname(w.base))
            assert len(self.twin) == len(w.base)
        twin = self.twin
        for name in os.listdir(twin):
            full = os.path.join(twin, name)
            if os.path.islink(full):
                os.unlink(full)
            else:
                shutil.rmtree(full)      # (ln/ holds a symlink; rmtree removes the link, not its target)
        # mirror the world's layout: <base>[/.ws]/{root,outside} and the <base>/link symlink
        rel_top = os.path.relpath(w.top, w.base)
        ttop = twin if rel_top == "." else os.path.join(twin, rel_top)
        if ttop != twin:
            os.mkdir(ttop)
        shutil.copytree(w.root, os.path.join(ttop, "root"), symlinks=True)
        os.mkdir(os.path.join(ttop, "outside"))
        os.symlink(os.path.join(ttop, "root"), os.path.join(twin, "link"))
        os.mkdir(os.path.join(twin, "ln"))
        os.symlink(os.path.join(ttop, "outside"), os.path.join(twin, "ln", "link3"))
        self.ttop = ttop
        return twin

    def run(self):
        import shutil
        try:
            return super().run()
        finally:
            if getattr(self, "twin", None):
                shutil.rmtree(self.twin, ignore_errors=True)

    def do_scan(self, idx, op):
        import shutil
        from . import oracles as O
        w = self.world
        if w.git != "none":
            w.git = "none"   # the real subprocess sees a tree that is not a git repository
        # real run first, on a copy including the current cache
        twin = self._twin()
        if op.get("fault"):
            return self.do_faulted_scan(idx, op, twin)
        cwd, arg = w._spelling(op.get("spelling"))
        rcwd = cwd.replace(w.base, twin, 1)
        rarg = arg.replace(w.base, twin, 1)
        args = {"cmd": "scan", "path": rarg, "exclude": list(w.cli_excludes), "verbose": bool(op.get("verbose"))}
        rc, out, err = _real(self.py, self.env, rcwd, args)
        obs = super().do_scan(idx, op)
        sim_ok = obs["outcome"] == "ok"
        self.n_cmp += 1
        if (rc == 0) != sim_ok:
            self.mismatches.append("scan op %d: real rc=%s, simulated outcome=%s %s; real stderr: %s" % (
                idx, rc, obs["outcome"], obs.get("exc"), err[-300:]))
            return obs
        if sim_ok:
            try:
                with open(os.path.join(self.ttop, "root", ".codelimit_cache", "codelimit.json")) as f:
                    real = json.load(f)
            except (OSError, ValueError) as e:
                self.mismatches.append("scan op %d: real cache unreadable: %s" % (idx, e))
                return obs
            a = O.norm_report(real, os.path.join(self.ttop, "root"))
            b = O.norm_report(w.cache_json(), w.root)
            a.pop("repository", None)
            b.pop("repository", None)
            if a != b:
                self.mismatches.append("scan op %d: reports differ: %s" % (idx, "; ".join(O.diff_reports(a, b))))
        return obs

    def do_faulted_scan(self, idx, op, twin):
        """Simulated crash vs real process death at the same mutation tick: the
        durable state left behind must be the same (names and sizes of everything in
        the cache directory; contents up to uuid / timestamp / root spelling)."""
        import re
        w = self.world
        cwd, arg = w._spelling(op.get("spelling"))
        args = {"cmd": "scan", "path": arg.replace(w.base, twin, 1), "exclude": list(w.cli_excludes),
                "verbose": bool(op.get("verbose")), "fault": dict(op["fault"], kind="crash"), "io_root": twin}
        rc, out, err = _real(self.py, self.env, cwd.replace(w.base, twin, 1), args)
        op2 = dict(op, fault=dict(op["fault"], kind="crash"))
        obs = super().do_scan(idx, op2)
        self.n_cmp += 1
        fired = obs.get("fault_fired") is not None
        if fired != (rc == 137):
            self.mismatches.append("faulted scan op %d tick %s: simulated fired=%s outcome=%s, real rc=%s %s" % (
                idx, op["fault"]["tick"], fired, obs["outcome"], rc, err[-300:]))
            return obs
        mask = re.compile(rb'"(uuid|timestamp)": "[^"]*"?')

        def listing(root, base):
            d = os.path.join(root, ".codelimit_cache")
            out = {}
            if os.path.isdir(d):
                for n in sorted(os.listdir(d)):
                    with open(os.path.join(d, n), "rb") as f:
                        b = f.read()
                    # the report's bytes depend on the listing order the real file system chose
                    # (the simulated scan ran under the 'sorted' policy): sizes must agree, and
                    # contents are compared for everything except the report
                    out[n] = (len(b), b"" if n == "codelimit.json" else mask.sub(b"", b.replace(base.encode(), b"<BASE>")))
            return out
        a = listing(os.path.join(self.ttop, "root"), twin)
        b = listing(w.root, w.base)
        if a != b:
            self.mismatches.append("faulted scan op %d tick %s: durable state differs: real %s, simulated %s" % (
                idx, op["fault"]["tick"], {k: v[0] for k, v in a.items()}, {k: v[0] for k, v in b.items()}))
        else:
            self.n_crash_cmp = getattr(self, "n_crash_cmp", 0) + (1 if fired else 0)
        return obs

    def do_check(self, idx, op):
        import shutil
        from . import oracles as O
        w = self.world
        twin = self._twin()
        obs = super().do_check(idx, op)
        if obs["outcome"] == "skipped":
            return obs
        troot = os.path.join(self.ttop, "root")
        cwd = {"root": troot, "outside": os.path.join(self.ttop, "outside"), "base": self.ttop}.get(op.get("cwd", "root"))
        if cwd is None:
            cwd = os.path.join(troot, op["cwd"][4:])
        args = {"cmd": "check", "paths": [x.replace("<ROOT>", troot) for x in op["args"]],
                "exclude": list(w.cli_excludes), "quiet": bool(op.get("quiet"))}
        rc, out, err = _real(self.py, self.env, cwd, args)
        self.n_cmp += 1
        sim_rc = obs.get("code") if obs["outcome"] == "exit" else ("!" + obs["outcome"])
        if rc != sim_rc:
            self.mismatches.append("check op %d %s: real rc=%s simulated=%s; stderr %s" % (idx, op["args"], rc, sim_rc, err[-300:]))
            return obs
        fa, na, _ = O.parse_check_output(out.replace(twin, w.base))
        fb, nb, _ = O.parse_check_output(obs["stdout"])
        if sorted(fa) != sorted(fb) or na != nb:
            self.mismatches.append("check op %d %s: real output %s/%s, simulated %s/%s" % (idx, op["args"], sorted(fa), na, sorted(fb), nb))
        return obs


def main(argv):
    if not argv:
        print(__doc__)
        return 2
    if argv[0] == "determinism":
        return determinism(argv[1:])
    if argv[0] == "conformance":
        return conformance(argv[1:])
    if argv[0] == "sensitivity":
        from . import sensitivity
        return sensitivity.main(argv[1:])
    print(__doc__)
    return 2
